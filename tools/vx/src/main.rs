//! vx — mechanical extractor: copies functions / type definitions of /repo verbatim by byte
//! span, applies the closed rewrite list T1..T9 (see DESIGN.md §2.2) as span edits, and splices
//! in contract annotations supplied by the overlay.  It never invents executable tokens other
//! than those listed under the rewrite rules.
//!
//! Protocol: JSON on stdin  {"repo": "/repo", "requests": [ {...}, ... ]}
//!           JSON on stdout {"responses": [ {...}, ... ]}
use serde_json::{json, Map, Value};
use std::collections::BTreeMap;
use syn::spanned::Spanned;
use syn::visit::{self, Visit};
use syn::*;

// ------------------------------------------------------------------------------------------
// span-edit engine
// ------------------------------------------------------------------------------------------
struct Ed<'a> {
    src: &'a str,
    edits: Vec<(usize, usize, u64, String)>,
    seq: u64,
    counts: BTreeMap<String, usize>,
}

fn rng<T: Spanned>(t: &T) -> (usize, usize) {
    let r = t.span().byte_range();
    (r.start, r.end)
}

impl<'a> Ed<'a> {
    fn new(src: &'a str) -> Self {
        Ed { src, edits: vec![], seq: 0, counts: BTreeMap::new() }
    }
    fn render(&self, lo: usize, hi: usize) -> String {
        let mut v: Vec<&(usize, usize, u64, String)> =
            self.edits.iter().filter(|e| e.0 >= lo && e.1 <= hi).collect();
        v.sort_by_key(|e| (e.0, e.1, e.2));
        let mut out = String::new();
        let mut p = lo;
        for e in v {
            if e.0 < p {
                // overlapping edit: should not happen; keep the earlier one
                continue;
            }
            out.push_str(&self.src[p..e.0]);
            out.push_str(&e.3);
            p = e.1;
        }
        out.push_str(&self.src[p..hi]);
        out
    }
    fn r<T: Spanned>(&self, t: &T) -> String {
        let (lo, hi) = rng(t);
        self.render(lo, hi)
    }
    fn count(&mut self, rule: &str) {
        *self.counts.entry(rule.to_string()).or_insert(0) += 1;
    }
    fn replace(&mut self, lo: usize, hi: usize, s: String, rule: &str) {
        self.edits.retain(|e| !(e.0 >= lo && e.1 <= hi && !(e.0 == e.1 && (e.0 == lo || e.0 == hi) && lo != hi && false)));
        self.seq += 1;
        self.edits.push((lo, hi, self.seq, s));
        self.count(rule);
    }
    fn insert(&mut self, at: usize, s: String, rule: &str) {
        self.seq += 1;
        self.edits.push((at, at, self.seq, s));
        if !rule.is_empty() {
            self.count(rule);
        }
    }
}

// ------------------------------------------------------------------------------------------
// configuration of one request
// ------------------------------------------------------------------------------------------
#[derive(Default, Clone)]
struct Cfg {
    subst: BTreeMap<String, String>, // type identifiers / "Self::Object" -> replacement
    ops: Vec<String>,                // which binary operators go through dispatch traits
    drop_into: bool,
    asref: bool,
    t9: bool,
    t13: bool,
    t15: bool,
    t17: bool,
    t18: bool,
    t19: bool,
    t20: bool,
    let_ty: BTreeMap<String, String>, // local name -> type annotation to add (type inference needs it once ghost code mentions the local)
    keep_derive: Vec<String>,
    deref_assign_rhs: bool,
    self_rename: Option<(String, String)>,
    kind_param: Vec<String>, // names standing for the array kind: K, VecKind
    loops: BTreeMap<usize, Value>,
    closures: BTreeMap<usize, Value>,
}

struct LoopInfo {
    idx: usize,
    body_open: usize, // byte offset just after '{'
    start: usize,     // start of the loop expression (incl. label)
    body_first_inserts: Vec<String>,
    pre_inserts: Vec<String>,
    iter_lo: usize, // start of iterator expression (for `it:` naming), usize::MAX for while/loop
}

struct V<'a> {
    ed: Ed<'a>,
    cfg: Cfg,
    loop_ctr: usize,
    closure_ctr: usize,
    loops: Vec<LoopInfo>,
    stmts: Vec<(usize, usize)>,
    errors: Vec<String>,
}

fn path_idents(p: &Path) -> Vec<String> {
    p.segments.iter().map(|s| s.ident.to_string()).collect()
}

impl<'a> V<'a> {
    /// one operand of a chain: (iterator expression, loop pattern, prologue statements, pushed expression)
    fn chain_side(&self, e: &Expr) -> Option<(String, String, String, String)> {
        if let Expr::MethodCall(m) = e {
            let name = m.method.to_string();
            if (name == "cloned" || name == "copied") && m.args.is_empty() {
                let recv = self.ed.r(&*m.receiver);
                let v = format!("vx_c{}", self.loop_ctr + 1);
                let body = if name == "cloned" { format!("{}.clone()", v) } else { format!("*{}", v) };
                return Some((recv, v, String::new(), body));
            }
            if name == "map" && m.args.len() == 1 {
                if let Expr::Closure(cl) = &m.args[0] {
                    if cl.inputs.len() == 1 {
                        let recv = self.ed.r(&*m.receiver);
                        let body = self.ed.r(&*cl.body);
                        let pat = match &cl.inputs[0] {
                            Pat::Type(pt) => &*pt.pat,
                            p => p,
                        };
                        // |&x| BODY : bind the reference, then `let x = *x_ref;`
                        if let Pat::Reference(pr) = pat {
                            if let Pat::Ident(pi) = &*pr.pat {
                                let x = pi.ident.to_string();
                                return Some((recv, format!("{}_ref", x), format!("let {} = *{}_ref; ", x, x), body));
                            }
                        }
                        return Some((recv, self.ed.r(pat), String::new(), body));
                    }
                }
            }
        }
        None
    }

    fn is_kind(&self, s: &str) -> bool {
        self.cfg.kind_param.iter().any(|k| k == s)
    }
    fn first_type_arg(&self, seg: &PathSegment) -> Option<String> {
        if let PathArguments::AngleBracketed(a) = &seg.arguments {
            for ga in a.args.iter() {
                if let GenericArgument::Type(t) = ga {
                    return Some(self.ed.r(t));
                }
            }
        }
        None
    }
    fn last_type_arg(&self, seg: &PathSegment) -> Option<String> {
        let mut r = None;
        if let PathArguments::AngleBracketed(a) = &seg.arguments {
            for ga in a.args.iter() {
                if let GenericArgument::Type(t) = ga {
                    r = Some(self.ed.r(t));
                }
            }
        }
        r
    }
    /// replacement for the associated item `Kind::<name>` in type position
    fn kind_assoc_type(&self, seg: &PathSegment) -> Option<String> {
        match seg.ident.to_string().as_str() {
            "I" => Some("usize".into()),
            "Index" => Some("VecArray<usize>".into()),
            "Type" => self.first_type_arg(seg).map(|x| format!("VecArray<{}>", x)),
            "Slice" => self.last_type_arg(seg).map(|x| format!("&[{}]", x)),
            _ => None,
        }
    }
    fn handle_macro(&mut self, m: &Macro, lo: usize, hi: usize, trailing_semi: bool) {
        let name = m.path.segments.last().map(|s| s.ident.to_string()).unwrap_or_default();
        let parse_args = |m: &Macro| -> Option<Vec<Expr>> {
            m.parse_body_with(punctuated::Punctuated::<Expr, Token![,]>::parse_terminated)
                .ok()
                .map(|p| p.into_iter().collect())
        };
        let semi = if trailing_semi { ";" } else { "" };
        match name.as_str() {
            "assert" | "debug_assert" => {
                if let Some(args) = parse_args(m) {
                    if !args.is_empty() {
                        for a in &args {
                            self.visit_expr(a);
                        }
                        let c = self.ed.r(&args[0]);
                        self.ed.replace(lo, hi, format!("rt_assert({}){}", c, semi), "T5");
                        return;
                    }
                }
                self.errors.push(format!("cannot parse {}! arguments", name));
            }
            "assert_eq" | "debug_assert_eq" => {
                if let Some(args) = parse_args(m) {
                    if args.len() >= 2 {
                        for a in &args {
                            self.visit_expr(a);
                        }
                        let a = self.ed.r(&args[0]);
                        let b = self.ed.r(&args[1]);
                        self.ed.replace(lo, hi, format!("rt_assert({} == {}){}", a, b, semi), "T5");
                        return;
                    }
                }
                self.errors.push(format!("cannot parse {}! arguments", name));
            }
            "panic" => {
                self.ed.replace(lo, hi, format!("rt_unreachable(){}", semi), "T5");
            }
            "vec" => {
                // vec![x; n] / vec![a, b]: keep, but rewrite inside the arguments
                if let Ok(args) = m.parse_body_with(punctuated::Punctuated::<Expr, Token![,]>::parse_terminated) {
                    for a in args.iter() {
                        self.visit_expr(a);
                    }
                } else if let Ok((a, b)) = m.parse_body_with(|input: parse::ParseStream| {
                    let a: Expr = input.parse()?;
                    let _: Token![;] = input.parse()?;
                    let b: Expr = input.parse()?;
                    Ok((a, b))
                }) {
                    self.visit_expr(&a);
                    self.visit_expr(&b);
                }
            }
            _ => {}
        }
    }
}

impl<'a, 'ast> Visit<'ast> for V<'a> {
    fn visit_attribute(&mut self, a: &'ast Attribute) {
        let (lo, hi) = rng(a);
        // a #[derive(..)] on an extracted type keeps the traits named in `keep_derive` (those Verus understands and
        // the contracts rely on: Clone, Copy, PartialEq, Eq); every other attribute is dropped
        if a.path().is_ident("derive") && !self.cfg.keep_derive.is_empty() {
            let mut kept: Vec<String> = vec![];
            let _ = a.parse_nested_meta(|m| {
                if let Some(id) = m.path.get_ident() {
                    let id = id.to_string();
                    if self.cfg.keep_derive.contains(&id) {
                        kept.push(id);
                    }
                }
                Ok(())
            });
            if !kept.is_empty() {
                self.ed.replace(lo, hi, format!("#[derive({})]", kept.join(", ")), "derive-kept");
                return;
            }
        }
        self.ed.replace(lo, hi, String::new(), "attr-dropped");
    }

    fn visit_angle_bracketed_generic_arguments(&mut self, a: &'ast AngleBracketedGenericArguments) {
        visit::visit_angle_bracketed_generic_arguments(self, a);
        let mut drop_first = false;
        if let Some(GenericArgument::Type(Type::Path(tp))) = a.args.first() {
            if tp.qself.is_none() && tp.path.segments.len() == 1 {
                let id = tp.path.segments[0].ident.to_string();
                if self.is_kind(&id) {
                    drop_first = true;
                }
            }
        }
        if drop_first {
            let rest: Vec<String> = a.args.iter().skip(1).map(|g| self.ed.r(g)).collect();
            let lo = match &a.colon2_token {
                Some(c) => rng(c).0,
                None => rng(&a.lt_token).0,
            };
            let hi = rng(&a.gt_token).1;
            let s = if rest.is_empty() {
                String::new()
            } else if a.colon2_token.is_some() {
                format!("::<{}>", rest.join(", "))
            } else {
                format!("<{}>", rest.join(", "))
            };
            self.ed.replace(lo, hi, s, "T1");
        }
    }

    fn visit_type(&mut self, t: &'ast Type) {
        visit::visit_type(self, t);
        if let Type::Path(tp) = t {
            let (lo, hi) = rng(t);
            let ids = path_idents(&tp.path);
            if let Some(q) = &tp.qself {
                // <VecKind as ArrayKind>::Index etc.
                let qs = self.ed.r(&*q.ty);
                if self.is_kind(qs.trim()) {
                    if let Some(last) = tp.path.segments.last() {
                        if let Some(s) = self.kind_assoc_type(last) {
                            self.ed.replace(lo, hi, s, "T1");
                            return;
                        }
                    }
                }
                return;
            }
            if ids.len() == 2 && self.is_kind(&ids[0]) {
                if let Some(s) = self.kind_assoc_type(&tp.path.segments[1]) {
                    self.ed.replace(lo, hi, s, "T1");
                    return;
                }
            }
            if ids.len() >= 2 && ids[0] == "crate" {
                // an explicit substitution for the whole path wins (e.g. the strict type named from inside the lax module)
                if let Some(sub) = self.cfg.subst.get(&ids.join("::")).cloned() {
                    let last_id_hi = rng(&tp.path.segments.last().unwrap().ident).1;
                    self.ed.replace(lo, last_id_hi, sub, "T1");
                    return;
                }
                // crate::module::Type<..>: the generated file has a flat namespace
                let last_lo = rng(tp.path.segments.last().unwrap()).0;
                self.ed.replace(lo, last_lo, String::new(), "path-prefix-dropped");
                return;
            }
            let key = ids.join("::");
            let plain = tp.path.segments.iter().all(|s| s.arguments.is_none());
            if plain {
                if let Some(s) = self.cfg.subst.get(&key) {
                    let s = s.clone();
                    self.ed.replace(lo, hi, s, "T1");
                }
            }
        }
    }

    fn visit_stmt(&mut self, s: &'ast Stmt) {
        self.stmts.push(rng(s));
        if let Stmt::Item(Item::Use(_)) = s {
            // `use` declarations inside a body: names are resolved by the generated file's own imports
            let (lo, hi) = rng(s);
            self.ed.replace(lo, hi, String::new(), "use-dropped");
            return;
        }
        if let Stmt::Local(l) = s {
            if let Pat::Ident(pi) = &l.pat {
                if let Some(ty) = self.cfg.let_ty.get(&pi.ident.to_string()).cloned() {
                    let at = rng(&l.pat).1;
                    self.ed.insert(at, format!(": {}", ty), "let-type");
                }
            }
        }
        if let Stmt::Macro(sm) = s {
            let (lo, hi) = rng(s);
            for a in &sm.attrs {
                self.visit_attribute(a);
            }
            self.handle_macro(&sm.mac, lo, hi, sm.semi_token.is_some());
            return;
        }
        visit::visit_stmt(self, s);
    }

    fn visit_expr(&mut self, e: &'ast Expr) {
        // pre-order numbering of loops and closures
        let mut my_loop = 0usize;
        let mut my_closure = 0usize;
        match e {
            Expr::ForLoop(_) | Expr::While(_) | Expr::Loop(_) => {
                self.loop_ctr += 1;
                my_loop = self.loop_ctr;
            }
            Expr::Closure(_) => {
                self.closure_ctr += 1;
                my_closure = self.closure_ctr;
            }
            _ => {}
        }
        visit::visit_expr(self, e);
        let (lo, hi) = rng(e);
        match e {
            Expr::Call(c) => {
                // T14:  (RECV.field)(args)  ->  RECV.field.call(args)
                //       a call of a boxed closure stored in a struct field becomes a method call on the opaque
                //       stand-in type declared for that field (Verus rejects Box<dyn Fn>)
                if let Expr::Paren(pp) = &*c.func {
                    if let Expr::Field(_) = &*pp.expr {
                        let inner = self.ed.r(&*pp.expr);
                        let args: Vec<String> = c.args.iter().map(|a| self.ed.r(a)).collect();
                        self.ed.replace(lo, hi, format!("{}.call({})", inner, args.join(", ")), "T14");
                    }
                }
                if let Expr::Path(p) = &*c.func {
                    let ids = path_idents(&p.path);
                    if ids.len() == 3 && self.is_kind(&ids[0]) && ids[1] == "I" && c.args.is_empty() {
                        if ids[2] == "zero" {
                            self.ed.replace(lo, hi, "0usize".into(), "T1");
                        } else if ids[2] == "one" {
                            self.ed.replace(lo, hi, "1usize".into(), "T1");
                        }
                    }
                }
            }
            Expr::Path(p) => {
                if p.qself.is_none() {
                    let ids = path_idents(&p.path);
                    if ids.len() == 1 && ids[0] == "self" {
                        if let Some((nm, _)) = self.cfg.self_rename.clone() {
                            self.ed.replace(lo, hi, nm, "T11");
                        }
                    }
                    if ids.len() >= 2 && self.is_kind(&ids[0]) {
                        let s0 = rng(&p.path.segments[0]).0;
                        let s1 = rng(&p.path.segments[1]).1;
                        match ids[1].as_str() {
                            "Index" => self.ed.replace(s0, s1, "VecArray::<usize>".into(), "T1"),
                            "I" => self.ed.replace(s0, s1, "usize".into(), "T1"),
                            "Type" => {
                                let x = self.first_type_arg(&p.path.segments[1]);
                                let s = match x {
                                    Some(x) => format!("VecArray::<{}>", x),
                                    None => "VecArray".into(),
                                };
                                self.ed.replace(s0, s1, s, "T1");
                            }
                            _ => {}
                        }
                    } else if ids.len() == 2 && ids[0] == "Array" {
                        let (a, b) = rng(&p.path.segments[0]);
                        self.ed.replace(a, b, "VecArray".into(), "T2");
                    } else if ids.len() >= 3 && ids[0] == "crate" && self.cfg.subst.contains_key(&ids[..ids.len() - 1].join("::")) {
                        // associated function of a crate-qualified type: whole-path substitution of the type part, as for types
                        let sub = self.cfg.subst.get(&ids[..ids.len() - 1].join("::")).cloned().unwrap();
                        let n = p.path.segments.len();
                        let plo = rng(&p.path).0;
                        let ty_hi = rng(&p.path.segments[n - 2].ident).1;
                        self.ed.replace(plo, ty_hi, sub, "T1");
                    } else if ids.len() >= 2 {
                        if let Some(s) = self.cfg.subst.get(&ids[0]).cloned() {
                            if p.path.segments[0].arguments.is_none() {
                                let (a, b) = rng(&p.path.segments[0]);
                                // type-position text -> expression-position (turbofish)
                                let s = s.replacen('<', "::<", 1);
                                self.ed.replace(a, b, s, "T1");
                            }
                        }
                    }
                }
            }
            Expr::MethodCall(m) if self.cfg.t13 && m.method == "collect" && m.args.is_empty() && is_into_iter(&m.receiver) => {
                // T13:  RECV.into_iter().collect()  ->  { let mut it = RECV.into_iter(); let mut v = Vec::new();
                //         loop { match it.next() { Some(x) => { v.push(x); } None => { break; } } } v }
                // (what Vec's FromIterator does: next() until None, pushing in order)
                if let Expr::MethodCall(mm) = &*m.receiver {
                    let recv = self.ed.r(&*mm.receiver);
                    self.loop_ctr += 1;
                    let idx = self.loop_ctr;
                    let ann = self.cfg.loops.get(&idx).cloned();
                    let (_itn, inv) = loop_annotation(&ann);
                    let getf = |k: &str| ann.as_ref().and_then(|a| a.get(k)).and_then(|v| v.as_str()).unwrap_or("").to_string();
                    let (pre, post, brk) = (getf("body_pre"), getf("body_post"), getf("break_pre"));
                    let ety = getf("elem_ty");
                    let vnew = if ety.is_empty() { "Vec::new()".to_string() } else { format!("Vec::<{}>::new()", ety) };
                    let s = format!(
                        "{{ let mut vx_it{i} = {recv}.into_iter();\n    let mut vx_v{i} = {vnew};\n    loop{inv}\n    {{\n        match vx_it{i}.next() {{\n            Some(vx_x{i}) => {{ {pre}\n                vx_v{i}.push(vx_x{i});\n                {post} }}\n            None => {{ {brk}\n                break; }}\n        }}\n    }}\n    vx_v{i} }}",
                        i = idx, recv = recv, inv = inv, pre = pre, post = post, brk = brk, vnew = vnew
                    );
                    self.ed.replace(lo, hi, s, "T13");
                }
            }
            Expr::MethodCall(m) if self.cfg.t9 && m.method == "collect" && m.args.is_empty() && is_map_closure(&m.receiver) => {
                // T9:  RECV.map(|P| BODY).collect()  ->  { let mut v = Vec::new(); for P in RECV { v.push(BODY); } v }
                if let Expr::MethodCall(mm) = &*m.receiver {
                    // the mapped function is a closure literal |P| BODY, or a path F (e.g. a tuple-struct constructor): |x| F(x)
                    let pb: Option<(String, String)> = match &mm.args[0] {
                        Expr::Closure(cl) => {
                            let pat = match &cl.inputs[0] {
                                Pat::Type(pt) => &*pt.pat,
                                p => p,
                            };
                            let mut out = (self.ed.r(&cl.inputs[0]), self.ed.r(&*cl.body));
                            // |&x| BODY : iterate over references and dereference explicitly (Verus has no `&x` loop patterns)
                            if let Pat::Reference(pr) = pat {
                                if let Pat::Ident(pi) = &*pr.pat {
                                    let x = pi.ident.to_string();
                                    out = (format!("{}_ref", x), format!("{{ let {} = *{}_ref; {} }}", x, x, out.1));
                                }
                            }
                            Some(out)
                        }
                        Expr::Path(pth) => {
                            let v = format!("vx_a{}", self.loop_ctr + 1);
                            Some((v.clone(), format!("{}({})", self.ed.r(pth), v)))
                        }
                        _ => None,
                    };
                    if let Some((p, body)) = pb {
                        let recv = self.ed.r(&*mm.receiver);
                        self.loop_ctr += 1;
                        let idx = self.loop_ctr;
                        let ann = self.cfg.loops.get(&idx).cloned();
                        let (itn, inv) = loop_annotation(&ann);
                        let getf = |k: &str| ann.as_ref().and_then(|a| a.get(k)).and_then(|v| v.as_str()).unwrap_or("").to_string();
                        let (pre, post) = (getf("body_pre"), getf("body_post"));
                        let ety = getf("elem_ty");
                        let newv = if ety.is_empty() { "Vec::new()".to_string() } else { format!("Vec::<{}>::new()", ety) };
                        let s = format!(
                            "{{ let mut vx_v{i} = {newv};\n    for {p} in {itn}{recv}{inv}\n    {{\n        {pre}\n        vx_v{i}.push({body});\n        {post}\n    }}\n    vx_v{i} }}",
                            i = idx, newv = newv, p = p, itn = itn, recv = recv, inv = inv, body = body, pre = pre, post = post
                        );
                        self.ed.replace(lo, hi, s, "T9");
                    }
                }
            }
            Expr::MethodCall(m) if self.cfg.t9 && m.method == "extend" && m.args.len() == 1 && is_map_closure(&m.args[0]) => {
                // T9(c):  V.extend(RECV.map(|P| BODY))  ->  for P in RECV { V.push(BODY); }
                // (what Vec::extend does with an iterator: push every item, in order)
                if let Expr::MethodCall(mm) = &m.args[0] {
                    let pb: Option<(String, String)> = match &mm.args[0] {
                        Expr::Closure(cl) => Some((self.ed.r(&cl.inputs[0]), self.ed.r(&*cl.body))),
                        _ => None,
                    };
                    if let Some((p, body)) = pb {
                        let v = self.ed.r(&*m.receiver);
                        let recv = self.ed.r(&*mm.receiver);
                        self.loop_ctr += 1;
                        let idx = self.loop_ctr;
                        let ann = self.cfg.loops.get(&idx).cloned();
                        let (itn, inv) = loop_annotation(&ann);
                        let getf = |k: &str| ann.as_ref().and_then(|a| a.get(k)).and_then(|v| v.as_str()).unwrap_or("").to_string();
                        let (pre, post) = (getf("body_pre"), getf("body_post"));
                        let s = format!(
                            "{{ for {p} in {itn}{recv}{inv}\n    {{\n        {pre}\n        {v}.push({body});\n        {post}\n    }} }}",
                            p = p, itn = itn, recv = recv, inv = inv, pre = pre, v = v, body = body, post = post
                        );
                        self.ed.replace(lo, hi, s, "T9");
                    }
                }
            }
            Expr::MethodCall(m) if self.cfg.t9 && m.method == "sum" && m.args.is_empty() && is_map_closure(&m.receiver) && matches!(&*m.receiver, Expr::MethodCall(mm) if matches!(&mm.args[0], Expr::Closure(_))) => {
                // T9(d):  RECV.map(|P| BODY).sum()  ->  { let mut acc: usize = 0; for P in RECV { acc = acc + BODY; } acc }
                // (Iterator::sum of usize values: add them up in order; the overflow obligation stays)
                if let Expr::MethodCall(mm) = &*m.receiver {
                    if let Expr::Closure(cl) = &mm.args[0] {
                        let recv = self.ed.r(&*mm.receiver);
                        let p = self.ed.r(&cl.inputs[0]);
                        let body = self.ed.r(&*cl.body);
                        self.loop_ctr += 1;
                        let idx = self.loop_ctr;
                        let ann = self.cfg.loops.get(&idx).cloned();
                        let (itn, inv) = loop_annotation(&ann);
                        let getf = |k: &str| ann.as_ref().and_then(|a| a.get(k)).and_then(|v| v.as_str()).unwrap_or("").to_string();
                        let (pre, post) = (getf("body_pre"), getf("body_post"));
                        let s = format!(
                            "{{ let mut vx_s{i}: usize = 0;\n    for {p} in {itn}{recv}{inv}\n    {{\n        {pre}\n        vx_s{i} = vx_s{i} + {body};\n        {post}\n    }}\n    vx_s{i} }}",
                            i = idx, p = p, itn = itn, recv = recv, inv = inv, pre = pre, body = body, post = post
                        );
                        self.ed.replace(lo, hi, s, "T9");
                    }
                }
            }
            Expr::MethodCall(m) if self.cfg.t20 && m.method == "collect" && m.args.is_empty() && is_chain2(&m.receiver) => {
                // T20:  A.chain(B).collect()  with A, B of the form  E.iter().cloned() | E.iter().copied() | E.iter().map(|P| BODY)
                //   ->  { let mut v = Vec::new(); for .. in E_A.iter() { v.push(..); } for .. in E_B.iter() { v.push(..); } v }
                // (Chain yields all of the first iterator, then all of the second; collect pushes in order)
                if let Expr::MethodCall(ch) = &*m.receiver {
                    let mut parts: Vec<String> = vec![];
                    let mut ety = String::new();
                    let vname = format!("vx_v{}", self.loop_ctr + 1);
                    for side in [&*ch.receiver, &ch.args[0]] {
                        if let Some((recv, pat, prologue, body)) = self.chain_side(side) {
                            self.loop_ctr += 1;
                            let idx = self.loop_ctr;
                            let ann = self.cfg.loops.get(&idx).cloned();
                            let (itn, inv) = loop_annotation(&ann);
                            let getf = |k: &str| ann.as_ref().and_then(|a| a.get(k)).and_then(|v| v.as_str()).unwrap_or("").to_string();
                            let (pre, post) = (getf("body_pre"), getf("body_post"));
                            if ety.is_empty() {
                                ety = getf("elem_ty");
                            }
                            parts.push(format!(
                                "    for {p} in {itn}{recv}{inv}\n    {{\n        {prologue}{pre}\n        {v}.push({body});\n        {post}\n    }}\n",
                                p = pat, itn = itn, recv = recv, inv = inv, prologue = prologue, pre = pre, v = vname, body = body, post = post
                            ));
                        } else {
                            self.errors.push("T20: unsupported chain operand".into());
                        }
                    }
                    let newv = if ety.is_empty() { "Vec::new()".to_string() } else { format!("Vec::<{}>::new()", ety) };
                    let s = format!("{{ let mut {v} = {newv};\n{parts}    {v} }}", v = vname, newv = newv, parts = parts.join(""));
                    self.ed.replace(lo, hi, s, "T20");
                }
            }
            Expr::MethodCall(m) if self.cfg.t20 && m.method == "to_vec" && m.args.is_empty() && !is_tail_slice(&m.receiver) => {
                // T20(c):  S.to_vec()  ->  { let mut v = Vec::new(); let mut k = 0; while k < S.len() { v.push(S[k].clone()); k += 1; } v }
                let base = self.ed.r(&*m.receiver);
                self.loop_ctr += 1;
                let idx = self.loop_ctr;
                let ann = self.cfg.loops.get(&idx).cloned();
                let (_itn, inv) = loop_annotation(&ann);
                let getf = |k: &str| ann.as_ref().and_then(|a| a.get(k)).and_then(|v| v.as_str()).unwrap_or("").to_string();
                let ety = getf("elem_ty");
                let newv = if ety.is_empty() { "Vec::new()".to_string() } else { format!("Vec::<{}>::new()", ety) };
                let s = format!(
                    "{{ let mut vx_v{i} = {newv}; let mut vx_k{i}: usize = 0;\n    while vx_k{i} < {base}.len(){inv}\n    {{\n        vx_v{i}.push({base}[vx_k{i}].clone());\n        vx_k{i} += 1;\n    }}\n    vx_v{i} }}",
                    i = idx, newv = newv, base = base, inv = inv
                );
                self.ed.replace(lo, hi, s, "T20");
            }
            Expr::MethodCall(m) if self.cfg.t20 && m.method == "to_vec" && m.args.is_empty() && is_tail_slice(&m.receiver) => {
                // T20(b):  V[a..].to_vec()  ->  { let mut v = Vec::new(); let mut k = a; while k < V.len() { v.push(V[k].clone()); k += 1; } v }
                if let Expr::Index(ix) = &*m.receiver {
                    if let Expr::Range(rg) = &*ix.index {
                        let base = self.ed.r(&*ix.expr);
                        let start = self.ed.r(&**rg.start.as_ref().unwrap());
                        self.loop_ctr += 1;
                        let idx = self.loop_ctr;
                        let ann = self.cfg.loops.get(&idx).cloned();
                        let (_itn, inv) = loop_annotation(&ann);
                        let getf = |k: &str| ann.as_ref().and_then(|a| a.get(k)).and_then(|v| v.as_str()).unwrap_or("").to_string();
                        let ety = getf("elem_ty");
                        let newv = if ety.is_empty() { "Vec::new()".to_string() } else { format!("Vec::<{}>::new()", ety) };
                        let s = format!(
                            "{{ let mut vx_v{i} = {newv}; let mut vx_k{i}: usize = {start};\n    while vx_k{i} < {base}.len(){inv}\n    {{\n        vx_v{i}.push({base}[vx_k{i}].clone());\n        vx_k{i} += 1;\n    }}\n    vx_v{i} }}",
                            i = idx, newv = newv, start = start, base = base, inv = inv
                        );
                        self.ed.replace(lo, hi, s, "T20");
                    }
                }
            }
            Expr::MethodCall(m) if self.cfg.t19 && m.method == "collect" && m.args.is_empty() && is_filter_map_closure(&m.receiver) => {
                // T19:  RECV.filter_map(|P| BODY).collect()  ->
                //   { let mut v = Vec::new(); for P in RECV { match BODY { Some(y) => { v.push(y); } None => {} } } v }
                if let Expr::MethodCall(mm) = &*m.receiver {
                    if let Expr::Closure(cl) = &mm.args[0] {
                        let recv = self.ed.r(&*mm.receiver);
                        let p = self.ed.r(&cl.inputs[0]);
                        let body = self.ed.r(&*cl.body);
                        self.loop_ctr += 1;
                        let idx = self.loop_ctr;
                        let ann = self.cfg.loops.get(&idx).cloned();
                        let (itn, inv) = loop_annotation(&ann);
                        let getf = |k: &str| ann.as_ref().and_then(|a| a.get(k)).and_then(|v| v.as_str()).unwrap_or("").to_string();
                        let (pre, post) = (getf("body_pre"), getf("body_post"));
                        let ety = getf("elem_ty");
                        let newv = if ety.is_empty() { "Vec::new()".to_string() } else { format!("Vec::<{}>::new()", ety) };
                        let s = format!(
                            "{{ let mut vx_v{i} = {newv};\n    for {p} in {itn}{recv}{inv}\n    {{\n        {pre}\n        match {body} {{ Some(vx_y{i}) => {{ vx_v{i}.push(vx_y{i}); }} None => {{}} }}\n        {post}\n    }}\n    vx_v{i} }}",
                            i = idx, newv = newv, p = p, itn = itn, recv = recv, inv = inv, body = body, pre = pre, post = post
                        );
                        self.ed.replace(lo, hi, s, "T19");
                    }
                }
            }
            Expr::MethodCall(m) if self.cfg.t19 && m.method == "map" && m.args.len() == 1 && matches!(&m.args[0], Expr::Path(_)) && !is_iterish(&m.receiver) => {
                // T19(b):  OPT.map(F)  with F a path (function / tuple-struct constructor)  ->  match OPT { Some(x) => Some(F(x)), None => None }
                let recv = self.ed.r(&*m.receiver);
                let fun = self.ed.r(&m.args[0]);
                self.closure_ctr += 0;
                let k = lo;
                self.ed.replace(lo, hi, format!("(match {} {{ Some(vx_o{}) => Some({}(vx_o{})), None => None }})", recv, k, fun, k), "T19");
            }
            Expr::MethodCall(m) if self.cfg.t18 && m.method == "drain" && m.args.len() == 1 && matches!(&m.args[0], Expr::Range(r) if r.start.is_none() && r.end.is_none()) => {
                // T18:  V.drain(..)  ->  std::mem::take(&mut V).into_iter()
                // (a full-range drain yields every element in order and leaves V empty whether or not it is consumed)
                let recv = self.ed.r(&*m.receiver);
                self.ed.replace(lo, hi, format!("std::mem::take(&mut {}).into_iter()", recv), "T18");
            }
            Expr::MethodCall(m) if self.cfg.t15 && m.method == "for_each" && m.args.len() == 1 && is_iter_mut(&m.receiver) && matches!(&m.args[0], Expr::Closure(_)) => {
                // T15(b):  RECV.iter_mut().for_each(|x| BODY)  ->
                //   { let mut i = 0; while i < RECV.len() INV { let x = &mut RECV[i]; BODY; i += 1; } }
                // (what IterMut + for_each do: every position once, in order, through a mutable reference)
                if let (Expr::MethodCall(mm), Expr::Closure(cl)) = (&*m.receiver, &m.args[0]) {
                    if cl.inputs.len() == 1 {
                        let recv = self.ed.r(&*mm.receiver);
                        let x = match &cl.inputs[0] {
                            Pat::Type(pt) => self.ed.r(&*pt.pat),
                            p => self.ed.r(p),
                        };
                        let body = self.ed.r(&*cl.body);
                        // the closure just visited is the most recent one
                        let cidx = self.closure_ctr;
                        let ann = self.cfg.closures.get(&cidx).cloned();
                        let (_itn, inv) = loop_annotation(&ann);
                        let getf = |k: &str| ann.as_ref().and_then(|a| a.get(k)).and_then(|v| v.as_str()).unwrap_or("").to_string();
                        let (pre, post) = (getf("body_pre"), getf("body_post"));
                        let ctr = format!("vx_c{}", cidx);
                        let s = format!(
                            "{{ let mut {c}: usize = 0;\n    while {c} < {r}.len(){inv}\n    {{\n        {pre}\n        let {x} = &mut {r}[{c}];\n        {body};\n        {c} += 1;\n        {post}\n    }} }}",
                            c = ctr, r = recv, inv = inv, pre = pre, x = x, body = body, post = post
                        );
                        self.ed.replace(lo, hi, s, "T15");
                    } else {
                        self.errors.push("T15 needs a single closure parameter".into());
                    }
                }
            }
            Expr::MethodCall(m) => {
                let name = m.method.to_string();
                let recv = self.ed.r(&*m.receiver);
                if name == "is_zero" && m.args.is_empty() {
                    self.ed.replace(lo, hi, format!("({} == 0usize)", recv), "T1");
                } else if name == "into" && m.args.is_empty() && self.cfg.drop_into {
                    self.ed.replace(lo, hi, recv, "T4");
                } else if name == "as_ref" && m.args.is_empty() && self.cfg.asref {
                    self.ed.replace(lo, hi, format!("(&{})", recv), "T4");
                } else if name == "as_mut" && m.args.is_empty() && self.cfg.asref {
                    self.ed.replace(lo, hi, format!("(&mut {})", recv), "T4");
                } else if name == "expect" && m.args.len() == 1 {
                    self.ed.replace(lo, hi, format!("{}.unwrap()", recv), "T5");
                } else if name == "get_range" && m.args.len() == 1 {
                    if let Expr::Range(r) = &m.args[0] {
                        let incl = matches!(r.limits, RangeLimits::Closed(_));
                        if !incl {
                            let s = match (&r.start, &r.end) {
                                (None, None) => format!("{}.get_range_full()", recv),
                                (Some(a), None) => format!("{}.get_range_from({})", recv, self.ed.r(&**a)),
                                (None, Some(b)) => format!("{}.get_range_to({})", recv, self.ed.r(&**b)),
                                (Some(a), Some(b)) => {
                                    format!("{}.get_range_range({}, {})", recv, self.ed.r(&**a), self.ed.r(&**b))
                                }
                            };
                            self.ed.replace(lo, hi, s, "T6");
                        }
                    }
                }
            }
            Expr::Cast(c) => {
                // (x.as_ref() as &K::Type<K::I>)  ->  (&x)
                let mut inner: &Expr = &c.expr;
                while let Expr::Paren(p) = inner {
                    inner = &p.expr;
                }
                if let Expr::MethodCall(m) = inner {
                    if m.method == "as_ref" && self.cfg.asref {
                        let s = self.ed.r(&*c.expr);
                        self.ed.replace(lo, hi, s, "T4");
                    }
                }
            }
            Expr::Binary(b) if self.cfg.deref_assign_rhs && matches!(b.op, BinOp::AddAssign(_) | BinOp::SubAssign(_)) && matches!(&*b.right, Expr::Path(_)) => {
                // T12: `a += x` with x: &usize is std's forwarding impl `*a += *x`; Verus has no spec for the
                // reference form, so the dereference is made explicit
                let at = rng(&*b.right).0;
                self.ed.insert(at, "*".into(), "T12");
            }
            Expr::Binary(b) => {
                let (opname, f) = match b.op {
                    BinOp::Shr(_) => ("shr", "OpShr::op_shr"),
                    BinOp::Add(_) => ("add", "OpAdd::op_add"),
                    BinOp::Sub(_) => ("sub", "OpSub::op_sub"),
                    BinOp::BitOr(_) => ("bitor", "OpBitOr::op_bitor"),
                    _ => ("", ""),
                };
                if !opname.is_empty() && self.cfg.ops.iter().any(|o| o == opname) {
                    let l = self.ed.r(&*b.left);
                    let r = self.ed.r(&*b.right);
                    self.ed.replace(lo, hi, format!("{}({}, {})", f, l, r), "T3");
                }
            }
            Expr::Struct(es) => {
                // struct literal with a crate-qualified path: explicit whole-path substitution, as for types
                let ids = path_idents(&es.path);
                if ids.len() >= 2 && ids[0] == "crate" {
                    if let Some(sub) = self.cfg.subst.get(&ids.join("::")).cloned() {
                        let (plo, _phi) = rng(&es.path);
                        let last_id_hi = rng(&es.path.segments.last().unwrap().ident).1;
                        self.ed.replace(plo, last_id_hi, sub, "T1");
                    }
                }
            }
            Expr::Macro(m) => {
                self.handle_macro(&m.mac, lo, hi, false);
            }
            Expr::Closure(c) => {
                if let Some(ann) = self.cfg.closures.get(&my_closure).cloned().filter(|a| a.get("t15").is_none()) {
                    let header = ann.get("header").and_then(|v| v.as_str()).unwrap_or("").to_string();
                    let spec = ann.get("spec").and_then(|v| v.as_str()).unwrap_or("").to_string();
                    let (blo, bhi) = rng(&*c.body);
                    // T10: a pattern parameter (Verus takes only variables) becomes a named parameter
                    // plus `let <original pattern> = <name>;` at the start of the closure body
                    let mut prologue = String::new();
                    if let Some(nm) = ann.get("destructure").and_then(|v| v.as_str()) {
                        if c.inputs.len() == 1 {
                            let pat = match &c.inputs[0] {
                                Pat::Type(pt) => self.ed.r(&*pt.pat),
                                p => self.ed.r(p),
                            };
                            prologue = format!("let {} = {}; ", pat, nm);
                            self.ed.count("T10");
                        } else {
                            self.errors.push("T10 needs a single closure parameter".into());
                        }
                    }
                    let body_text = self.ed.render(blo, bhi);
                    self.ed.replace(lo, hi, format!("{} {} {{ {}{} }}", header, spec, prologue, body_text), "closure-spec");
                }
            }
            Expr::ForLoop(f) => {
                let mut info = LoopInfo {
                    idx: my_loop,
                    body_open: rng(&f.body.brace_token.span.open()).1,
                    start: lo,
                    body_first_inserts: vec![],
                    pre_inserts: vec![],
                    iter_lo: rng(&*f.expr).0,
                };
                // T17:  for PAT in X.into_iter().zip(Y.into_iter()) { BODY }  ->  two explicit iterators and a loop that
                //       calls next() on the first, then on the second, and stops at the first None (what Zip does);
                //       lets the library's own iterators, whose next() is under contract, carry the proof
                if self.cfg.t17 {
                    if let Expr::MethodCall(zm) = &*f.expr {
                        if zm.method == "zip" && zm.args.len() == 1 && is_into_iter(&zm.receiver) && is_into_iter(&zm.args[0]) {
                            if let (Expr::MethodCall(ma), Expr::MethodCall(mb)) = (&*zm.receiver, &zm.args[0]) {
                                let xa = self.ed.r(&*ma.receiver);
                                let xb = self.ed.r(&*mb.receiver);
                                let pat_s = self.ed.r(&*f.pat);
                                let body = self.ed.r(&f.body);
                                let ann = self.cfg.loops.get(&my_loop).cloned();
                                let (_itn, inv) = loop_annotation(&ann);
                                let getf = |k: &str| ann.as_ref().and_then(|a| a.get(k)).and_then(|v| v.as_str()).unwrap_or("").to_string();
                                let (pre, post, brk) = (getf("body_pre"), getf("body_post"), getf("break_pre"));
                                let n = my_loop;
                                let s = format!(
                                    "{{ let mut vx_za{n} = {xa}.into_iter(); let mut vx_zb{n} = {xb}.into_iter();\n    loop{inv}\n    {{\n        match vx_za{n}.next() {{\n            None => {{ {brk}\n                break; }}\n            Some(vx_xa{n}) => {{ match vx_zb{n}.next() {{\n                None => {{ {brk}\n                    break; }}\n                Some(vx_xb{n}) => {{ let {pat} = (vx_xa{n}, vx_xb{n});\n                    {pre}\n                    {body}\n                    {post} }}\n            }} }}\n        }}\n    }} }}",
                                    n = n, xa = xa, xb = xb, inv = inv, brk = brk, pat = pat_s, pre = pre, body = body, post = post
                                );
                                self.ed.replace(lo, hi, s, "T17");
                                return;
                            }
                        }
                    }
                }
                // T15(a):  for PAT in &mut X { BODY }  ->  let mut j = 0; while j < X.len() INV { let PAT = &mut X[j]; BODY j += 1; }
                let mut is_t15 = false;
                if self.cfg.t15 {
                    if let Expr::Reference(rf) = &*f.expr {
                        if rf.mutability.is_some() {
                            let ctr = format!("vx_j{}", my_loop);
                            let recv = self.ed.r(&*rf.expr);
                            let pat_s = self.ed.r(&*f.pat);
                            let body_src = &self.ed.src[rng(&f.body).0..rng(&f.body).1];
                            if body_src.contains("continue") {
                                self.errors.push("T15 cannot rewrite a loop containing `continue`".into());
                            }
                            let (_elo, ehi) = rng(&*f.expr);
                            self.ed.replace(lo, ehi, format!("while {} < {}.len()", ctr, recv), "T15");
                            info.pre_inserts.push(format!("let mut {}: usize = 0;\n", ctr));
                            info.body_first_inserts.push(format!("let {} = &mut {}[{}];", pat_s, recv, ctr));
                            let close = rng(&f.body.brace_token.span.close()).0;
                            self.ed.insert(close, format!(" {} += 1; ", ctr), "");
                            info.iter_lo = usize::MAX;
                            is_t15 = true;
                        }
                    }
                }
                let mut pat: &Pat = &f.pat;
                let (plo, phi) = rng(&*f.pat);
                let mut pat_text: Option<String> = None;
                if is_t15 {
                    self.loops.push(info);
                    return;
                }
                // T8: enumerate
                if let (Expr::MethodCall(m), Pat::Tuple(pt)) = (&*f.expr, &*f.pat) {
                    if m.method == "enumerate" && m.args.is_empty() && pt.elems.len() == 2 {
                        let ctr = format!("vx_i{}", my_loop);
                        let iname = self.ed.r(&pt.elems[0]);
                        let recv = self.ed.r(&*m.receiver);
                        let (elo, ehi) = rng(&*f.expr);
                        self.ed.replace(elo, ehi, recv, "T8");
                        info.pre_inserts.push(format!("let mut {}: usize = 0;\n", ctr));
                        info.body_first_inserts.push(format!("let {} = {}; {} = {} + 1;", iname, ctr, ctr, ctr));
                        pat = &pt.elems[1];
                        pat_text = Some(self.ed.r(pat));
                    }
                }
                // T7: reference pattern
                if let Pat::Reference(pr) = pat {
                    if let Pat::Ident(pi) = &*pr.pat {
                        let x = pi.ident.to_string();
                        pat_text = Some(format!("{}_ref", x));
                        info.body_first_inserts.push(format!("let {} = *{}_ref;", x, x));
                        self.ed.count("T7");
                    }
                }
                if let Some(pt) = pat_text {
                    self.ed.replace(plo, phi, pt, "");
                }
                self.loops.push(info);
            }
            Expr::While(w) => {
                self.loops.push(LoopInfo {
                    idx: my_loop,
                    body_open: rng(&w.body.brace_token.span.open()).1,
                    start: lo,
                    body_first_inserts: vec![],
                    pre_inserts: vec![],
                    iter_lo: usize::MAX,
                });
            }
            Expr::Loop(l) => {
                self.loops.push(LoopInfo {
                    idx: my_loop,
                    body_open: rng(&l.body.brace_token.span.open()).1,
                    start: lo,
                    body_first_inserts: vec![],
                    pre_inserts: vec![],
                    iter_lo: usize::MAX,
                });
            }
            _ => {}
        }
    }
}

fn is_chain2(e: &Expr) -> bool {
    if let Expr::MethodCall(m) = e {
        return m.method == "chain" && m.args.len() == 1;
    }
    false
}

fn is_tail_slice(e: &Expr) -> bool {
    if let Expr::Index(ix) = e {
        if let Expr::Range(r) = &*ix.index {
            return r.start.is_some() && r.end.is_none();
        }
    }
    false
}

fn is_filter_map_closure(e: &Expr) -> bool {
    if let Expr::MethodCall(m) = e {
        if m.method == "filter_map" && m.args.len() == 1 {
            if let Expr::Closure(cl) = &m.args[0] {
                return cl.inputs.len() == 1;
            }
        }
    }
    false
}

/// receiver that is syntactically an iterator pipeline (so `.map(F)` on it is Iterator::map, not Option::map)
fn is_iterish(e: &Expr) -> bool {
    match e {
        Expr::MethodCall(m) => {
            let n = m.method.to_string();
            matches!(n.as_str(), "iter" | "into_iter" | "iter_mut" | "zip" | "enumerate" | "map" | "filter" | "filter_map" | "chain" | "cloned" | "copied" | "rev" | "drain" | "skip" | "take")
        }
        Expr::Range(_) => true,
        Expr::Paren(p) => is_iterish(&p.expr),
        _ => false,
    }
}

fn is_iter_mut(e: &Expr) -> bool {
    if let Expr::MethodCall(m) = e {
        return m.method == "iter_mut" && m.args.is_empty();
    }
    false
}

fn is_into_iter(e: &Expr) -> bool {
    if let Expr::MethodCall(m) = e {
        return m.method == "into_iter" && m.args.is_empty();
    }
    false
}

fn is_map_closure(e: &Expr) -> bool {
    if let Expr::MethodCall(m) = e {
        if m.method == "map" && m.args.len() == 1 {
            if let Expr::Closure(cl) = &m.args[0] {
                return cl.inputs.len() == 1;
            }
            if let Expr::Path(_) = &m.args[0] {
                return true;
            }
        }
    }
    false
}

#[allow(dead_code)]
fn strip_pat_type(p: &Pat) -> &Pat {
    match p {
        Pat::Type(pt) => &pt.pat,
        _ => p,
    }
}

/// (iterator naming prefix, invariant text) for a loop annotation
fn loop_annotation(ann: &Option<Value>) -> (String, String) {
    match ann {
        None => (String::new(), String::new()),
        Some(a) => {
            let name = a.get("iter").and_then(|v| v.as_str()).unwrap_or("");
            let itn = if name.is_empty() { String::new() } else { format!("{}: ", name) };
            let mut s = String::new();
            if let Some(inv) = a.get("invariant_except_break").and_then(|v| v.as_array()) {
                if !inv.is_empty() {
                    s.push_str("\n        invariant_except_break\n");
                    for c in inv {
                        s.push_str(&format!("            {},\n", c.as_str().unwrap_or("")));
                    }
                }
            }
            if let Some(inv) = a.get("invariant").and_then(|v| v.as_array()) {
                if !inv.is_empty() {
                    s.push_str("\n        invariant\n");
                    for c in inv {
                        s.push_str(&format!("            {},\n", c.as_str().unwrap_or("")));
                    }
                }
            }
            if let Some(ens) = a.get("ensures").and_then(|v| v.as_array()) {
                if !ens.is_empty() {
                    if s.is_empty() {
                        s.push('\n');
                    }
                    s.push_str("        ensures\n");
                    for c in ens {
                        s.push_str(&format!("            {},\n", c.as_str().unwrap_or("")));
                    }
                }
            }
            if let Some(d) = a.get("decreases").and_then(|v| v.as_str()) {
                if s.is_empty() {
                    s.push('\n');
                }
                s.push_str(&format!("        decreases {},\n", d));
            }
            (itn, s)
        }
    }
}

// ------------------------------------------------------------------------------------------
// locating items
// ------------------------------------------------------------------------------------------
fn type_last_ident(t: &Type) -> String {
    match t {
        Type::Reference(r) => type_last_ident(&r.elem),
        Type::Path(p) => p.path.segments.last().map(|s| s.ident.to_string()).unwrap_or_default(),
        Type::Paren(p) => type_last_ident(&p.elem),
        _ => String::new(),
    }
}

enum Found<'f> {
    ImplFn(&'f ImplItemFn),
    TraitFn(&'f TraitItemFn),
    FreeFn(&'f ItemFn),
}

fn find_fn<'f>(items: &'f [Item], loc: &Value) -> std::result::Result<Found<'f>, String> {
    let name = loc.get("name").and_then(|v| v.as_str()).unwrap_or("");
    let kind = loc.get("kind").and_then(|v| v.as_str()).unwrap_or("impl");
    let nth = loc.get("nth").and_then(|v| v.as_u64()).unwrap_or(0) as usize;
    let want_trait = loc.get("trait").and_then(|v| v.as_str());
    let want_self = loc.get("self_ty").and_then(|v| v.as_str());
    let want_mod = loc.get("module").and_then(|v| v.as_str());
    let want_self_args = loc.get("self_args").and_then(|v| v.as_str());
    let mut hits: Vec<Found<'f>> = vec![];
    fn walk<'f>(
        items: &'f [Item],
        hits: &mut Vec<Found<'f>>,
        name: &str,
        kind: &str,
        want_trait: Option<&str>,
        want_self: Option<&str>,
        want_self_args: Option<&str>,
        want_mod: Option<&str>,
        cur_mod: Option<&str>,
    ) {
        for it in items {
            match it {
                Item::Mod(m) => {
                    if let Some((_, inner)) = &m.content {
                        let mn = m.ident.to_string();
                        walk(inner, hits, name, kind, want_trait, want_self, want_self_args, want_mod, Some(&mn));
                    }
                }
                Item::Fn(f) if kind == "free" => {
                    if f.sig.ident == name && want_mod.map(|m| Some(m) == cur_mod).unwrap_or(cur_mod.is_none()) {
                        hits.push(Found::FreeFn(f));
                    }
                }
                Item::Impl(im) if kind == "impl" => {
                    let tr = im.trait_.as_ref().map(|(_, p, _)| p.segments.last().map(|s| s.ident.to_string()).unwrap_or_default());
                    if want_trait.map(|s| s.to_string()) != tr {
                        continue;
                    }
                    if let Some(ws) = want_self {
                        if type_last_ident(&im.self_ty) != ws {
                            continue;
                        }
                    }
                    if let Some(wa) = want_self_args {
                        let st = quote::ToTokens::to_token_stream(&*im.self_ty).to_string().replace(' ', "");
                        if !st.contains(&wa.replace(' ', "")) {
                            continue;
                        }
                    }
                    for ii in &im.items {
                        if let ImplItem::Fn(f) = ii {
                            if f.sig.ident == name {
                                hits.push(Found::ImplFn(f));
                            }
                        }
                    }
                }
                Item::Trait(t) if kind == "trait" => {
                    if want_trait.map(|s| t.ident == s).unwrap_or(true) {
                        for ti in &t.items {
                            if let TraitItem::Fn(f) = ti {
                                if f.sig.ident == name && f.default.is_some() {
                                    hits.push(Found::TraitFn(f));
                                }
                            }
                        }
                    }
                }
                _ => {}
            }
        }
    }
    walk(items, &mut hits, name, kind, want_trait, want_self, want_self_args, want_mod, None);
    if hits.is_empty() {
        return Err(format!("lost anchor: function `{}` not found ({})", name, loc));
    }
    if nth >= hits.len() {
        return Err(format!("lost anchor: function `{}` occurrence {} not found", name, nth));
    }
    if hits.len() > 1 && loc.get("nth").is_none() {
        return Err(format!("ambiguous anchor: {} functions match {}", hits.len(), loc));
    }
    Ok(hits.swap_remove(nth))
}

// ------------------------------------------------------------------------------------------
// rendering a function
// ------------------------------------------------------------------------------------------
fn cfg_from(req: &Value) -> Cfg {
    let mut c = Cfg::default();
    c.kind_param = vec!["K".into(), "VecKind".into()];
    if let Some(r) = req.get("rules") {
        if let Some(m) = r.get("subst").and_then(|v| v.as_object()) {
            for (k, v) in m {
                c.subst.insert(k.clone(), v.as_str().unwrap_or("").to_string());
            }
        }
        if let Some(a) = r.get("ops").and_then(|v| v.as_array()) {
            c.ops = a.iter().filter_map(|x| x.as_str().map(|s| s.to_string())).collect();
        }
        c.drop_into = r.get("drop_into").and_then(|v| v.as_bool()).unwrap_or(false);
        c.asref = r.get("asref").and_then(|v| v.as_bool()).unwrap_or(false);
        c.t9 = r.get("t9").and_then(|v| v.as_bool()).unwrap_or(false);
        c.t13 = r.get("t13").and_then(|v| v.as_bool()).unwrap_or(false);
        c.t15 = r.get("t15").and_then(|v| v.as_bool()).unwrap_or(false);
        c.t17 = r.get("t17").and_then(|v| v.as_bool()).unwrap_or(false);
        c.t18 = r.get("t18").and_then(|v| v.as_bool()).unwrap_or(false);
        c.t19 = r.get("t19").and_then(|v| v.as_bool()).unwrap_or(false);
        c.t20 = r.get("t20").and_then(|v| v.as_bool()).unwrap_or(false);
        if let Some(m) = r.get("let_ty").and_then(|v| v.as_object()) {
            for (k, v) in m {
                c.let_ty.insert(k.clone(), v.as_str().unwrap_or("").to_string());
            }
        }
        if let Some(a) = r.get("keep_derive").and_then(|v| v.as_array()) {
            c.keep_derive = a.iter().filter_map(|x| x.as_str().map(|s| s.to_string())).collect();
        }
        c.deref_assign_rhs = r.get("deref_assign_rhs").and_then(|v| v.as_bool()).unwrap_or(false);
        if let Some(a) = r.get("self_rename").and_then(|v| v.as_array()) {
            if a.len() == 2 {
                c.self_rename = Some((a[0].as_str().unwrap_or("").to_string(), a[1].as_str().unwrap_or("").to_string()));
            }
        }
    }
    if let Some(a) = req.get("annotations") {
        if let Some(m) = a.get("loops").and_then(|v| v.as_object()) {
            for (k, v) in m {
                if let Ok(i) = k.parse::<usize>() {
                    c.loops.insert(i, v.clone());
                }
            }
        }
        if let Some(m) = a.get("closures").and_then(|v| v.as_object()) {
            for (k, v) in m {
                if let Ok(i) = k.parse::<usize>() {
                    c.closures.insert(i, v.clone());
                }
            }
        }
    }
    c
}

fn clause_block(kw: &str, clauses: Option<&Vec<Value>>) -> String {
    let mut s = String::new();
    if let Some(cs) = clauses {
        if !cs.is_empty() {
            s.push_str(&format!("    {}\n", kw));
            for c in cs {
                // either "text" or ["label", "text"]
                let (label, text) = match c {
                    Value::Array(a) if a.len() == 2 => (a[0].as_str().unwrap_or(""), a[1].as_str().unwrap_or("")),
                    Value::String(t) => ("", t.as_str()),
                    _ => ("", ""),
                };
                if label.is_empty() {
                    s.push_str(&format!("        {},\n", text));
                } else {
                    s.push_str(&format!("        {}, /*@C:{}@*/\n", text, label));
                }
            }
        }
    }
    s
}

fn render_fn(src: &str, sig: &Signature, block: Option<&Block>, req: &Value, whole: (usize, usize)) -> std::result::Result<Value, String> {
    let cfg = cfg_from(req);
    let ann = req.get("annotations").cloned().unwrap_or(json!({}));
    let mut v = V { ed: Ed::new(src), cfg: cfg.clone(), loop_ctr: 0, closure_ctr: 0, loops: vec![], stmts: vec![], errors: vec![] };
    // signature: register type edits
    for inp in sig.inputs.iter() {
        match inp {
            // `&self` carries an implied type `&Self` whose span is the receiver itself: skip it
            FnArg::Receiver(r) if r.colon_token.is_none() => {}
            _ => v.visit_fn_arg(inp),
        }
    }
    if let ReturnType::Type(_, t) = &sig.output {
        v.visit_type(t);
    }
    for gp in sig.generics.params.iter() {
        v.visit_generic_param(gp);
    }
    let body_mode = ann.get("body").and_then(|x| x.as_str()).unwrap_or("keep");
    if let (Some(b), "keep") = (block, body_mode) {
        v.visit_block(b);
    }
    if !v.errors.is_empty() {
        return Err(v.errors.join("; "));
    }
    // ---- assemble signature
    let rename = req.get("rename").and_then(|x| x.as_str());
    let name = rename.map(|s| s.to_string()).unwrap_or(sig.ident.to_string());
    let no_pub = req.get("no_pub").and_then(|x| x.as_bool()).unwrap_or(false);
    let drop_generics: Vec<String> = req
        .get("rules")
        .and_then(|r| r.get("drop_generics"))
        .and_then(|x| x.as_array())
        .map(|a| a.iter().filter_map(|x| x.as_str().map(|s| s.to_string())).collect())
        .unwrap_or_default();
    let mut gens: Vec<String> = vec![];
    for gp in sig.generics.params.iter() {
        let id = match gp {
            GenericParam::Type(t) => t.ident.to_string(),
            GenericParam::Lifetime(l) => l.lifetime.to_string(),
            GenericParam::Const(c) => c.ident.to_string(),
        };
        if v.is_kind(&id) || drop_generics.contains(&id) || v.cfg.subst.contains_key(&id) {
            v.ed.count("T1");
            continue;
        }
        gens.push(v.ed.r(gp));
    }
    if let Some(extra) = ann.get("generics_add").and_then(|x| x.as_array()) {
        for e in extra {
            gens.push(e.as_str().unwrap_or("").to_string());
        }
    }
    let generics = if gens.is_empty() { String::new() } else { format!("<{}>", gens.join(", ")) };
    // T10 (parameters): a pattern parameter becomes a named parameter + `let <pattern> = <name>;`
    let sig_pat = ann.get("sig_pat").and_then(|x| x.as_object()).cloned().unwrap_or_default();
    let mut param_lets: Vec<String> = vec![];
    let mut extra_lets: Vec<String> = vec![];
    let mut inputs: Vec<String> = vec![];
    for i in sig.inputs.iter() {
        let s = match (i, &v.cfg.self_rename) {
            (FnArg::Receiver(rc), Some((nm, ty))) => {
                if rc.reference.is_none() && rc.mutability.is_some() {
                    // `mut self` (by value, locally mutable): Verus has no `mut self`; the receiver becomes `<name>_in`
                    // and the body starts with `let mut <name> = <name>_in;`
                    extra_lets.push(format!("let mut {} = {}_in;", nm, nm));
                    format!("{}_in: {}", nm, ty)
                } else {
                    format!("{}: {}", nm, ty)
                }
            }
            (FnArg::Typed(pt), _) => {
                let ptxt = v.ed.r(&*pt.pat);
                let key: String = ptxt.split_whitespace().collect::<Vec<_>>().join(" ");
                match sig_pat.get(&key).and_then(|x| x.as_str()) {
                    Some(nm) => {
                        param_lets.push(format!("let {} = {};", ptxt, nm));
                        v.ed.count("T10");
                        format!("{}: {}", nm, v.ed.r(&*pt.ty))
                    }
                    None => v.ed.r(i),
                }
            }
            _ => v.ed.r(i),
        };
        inputs.push(s);
    }
    if param_lets.len() != sig_pat.len() {
        return Err(format!("lost anchor: pattern parameter not found in `{}`", name));
    }
    let ret_name = ann.get("ret").and_then(|x| x.as_str()).unwrap_or("r");
    let ret = match &sig.output {
        ReturnType::Default => String::new(),
        ReturnType::Type(_, t) => format!(" -> ({}: {})", ret_name, v.ed.r(&**t)),
    };
    let where_add = ann.get("where_add").and_then(|x| x.as_str()).unwrap_or("");
    if sig.generics.where_clause.is_some() {
        v.ed.count("where-dropped");
    }
    let mut out = String::new();
    if let Some(attrs) = ann.get("attrs").and_then(|x| x.as_array()) {
        for a in attrs {
            out.push_str(a.as_str().unwrap_or(""));
            out.push('\n');
        }
    }
    if body_mode == "external" {
        out.push_str("#[verifier::external_body]\n");
    }
    out.push_str(&format!(
        "{}fn {}{}({}){}\n",
        if no_pub { "" } else { "pub " },
        name,
        generics,
        inputs.join(", "),
        ret
    ));
    if !where_add.is_empty() {
        out.push_str(&format!("    where {}\n", where_add));
    }
    out.push_str(&clause_block("requires", ann.get("requires").and_then(|x| x.as_array())));
    out.push_str(&clause_block("ensures", ann.get("ensures").and_then(|x| x.as_array())));
    if let Some(d) = ann.get("decreases").and_then(|x| x.as_str()) {
        out.push_str(&format!("    decreases {},\n", d));
    }
    // ---- body
    match (block, body_mode) {
        (Some(b), "keep") => {
            for l in extra_lets.iter().chain(param_lets.iter()) {
                v.ed.insert(rng(&b.brace_token.span.open()).1, format!(" {}", l), "");
            }
            // loops: iterator naming, invariants, inserted statements
            let loops = std::mem::take(&mut v.loops);
            for li in loops.iter() {
                let ann_l = v.cfg.loops.get(&li.idx).cloned();
                let (itn, inv) = loop_annotation(&ann_l);
                if !itn.is_empty() && li.iter_lo != usize::MAX {
                    v.ed.insert(li.iter_lo, itn, "");
                }
                for p in &li.pre_inserts {
                    v.ed.insert(li.start, p.clone(), "");
                }
                if !inv.is_empty() {
                    // place before the opening brace of the body
                    v.ed.insert(li.body_open - 1, inv, "loop-invariant");
                }
                for s in &li.body_first_inserts {
                    v.ed.insert(li.body_open, format!(" {}", s), "");
                }
            }
            // closures / loops annotated but absent -> lost anchor
            for k in v.cfg.loops.keys() {
                if *k > v.loop_ctr {
                    return Err(format!("lost anchor: loop #{} not found in `{}`", k, name));
                }
            }
            for k in v.cfg.closures.keys() {
                if *k > v.closure_ctr {
                    return Err(format!("lost anchor: closure #{} not found in `{}`", k, name));
                }
            }
            // proof blocks
            if let Some(ps) = ann.get("proofs").and_then(|x| x.as_array()) {
                let open = rng(&b.brace_token.span.open()).1;
                let close = rng(&b.brace_token.span.close()).0;
                for p in ps {
                    let anchor = p.get("at").and_then(|x| x.as_str()).unwrap_or("start");
                    let text = p.get("text").and_then(|x| x.as_str()).unwrap_or("");
                    let wrapped = if p.get("raw").and_then(|x| x.as_bool()).unwrap_or(false) {
                        format!("\n{}\n", text)
                    } else {
                        format!("\n    proof {{\n{}\n    }}\n    ", text)
                    };
                    if anchor == "start" {
                        v.ed.insert(open, wrapped, "proof-hint");
                    } else if anchor == "close" {
                        v.ed.insert(close, wrapped, "proof-hint");
                    } else if anchor == "end" {
                        let at = match b.stmts.last() {
                            Some(Stmt::Expr(e, None)) => rng(e).0,
                            _ => close,
                        };
                        v.ed.insert(at, wrapped, "proof-hint");
                    } else if anchor.starts_with("before#") || anchor.starts_with("after#") {
                        // before#K:text / after#K:text -- the K-th (in source order) innermost statement containing text
                        let after = anchor.starts_with("after#");
                        let rest = &anchor[if after { 6 } else { 7 }..];
                        let (kstr, t) = match rest.split_once(':') {
                            Some(x) => x,
                            None => return Err(format!("bad proof anchor `{}`", anchor)),
                        };
                        let k: usize = kstr.parse().unwrap_or(0);
                        let mut ms: Vec<(usize, usize)> = v.stmts.iter().filter(|(lo, hi)| src[*lo..*hi].contains(t)).cloned().collect();
                        let all = ms.clone();
                        ms.retain(|(lo, hi)| !all.iter().any(|(l2, h2)| (l2, h2) != (lo, hi) && l2 >= lo && h2 <= hi));
                        ms.sort();
                        ms.dedup();
                        if k == 0 || k > ms.len() {
                            return Err(format!("lost anchor: occurrence {} of a statement containing `{}` not found in `{}`", k, t, name));
                        }
                        let (lo, hi) = ms[k - 1];
                        v.ed.insert(if after { hi } else { lo }, wrapped, "proof-hint");
                    } else if let Some(t) = anchor.strip_prefix("before:").or(anchor.strip_prefix("after:")) {
                        let after = anchor.starts_with("after:");
                        // innermost statement whose source text contains t
                        let mut best: Option<(usize, usize)> = None;
                        for (lo, hi) in v.stmts.iter() {
                            if src[*lo..*hi].contains(t) {
                                match best {
                                    None => best = Some((*lo, *hi)),
                                    Some((blo, bhi)) => {
                                        if hi - lo < bhi - blo {
                                            best = Some((*lo, *hi));
                                        }
                                    }
                                }
                            }
                        }
                        match best {
                            Some((lo, hi)) => {
                                v.ed.insert(if after { hi } else { lo }, wrapped, "proof-hint");
                            }
                            None => return Err(format!("lost anchor: no statement containing `{}` in `{}`", t, name)),
                        }
                    } else {
                        return Err(format!("bad proof anchor `{}`", anchor));
                    }
                }
            }
            out.push_str(&v.ed.r(b));
            out.push('\n');
        }
        (_, "external") => {
            out.push_str("{ unimplemented!() }\n");
        }
        (None, _) => {
            out.push_str(";\n");
        }
        _ => return Err("bad body mode".into()),
    }
    let mut counts = Map::new();
    for (k, n) in v.ed.counts.iter() {
        if !k.is_empty() {
            counts.insert(k.clone(), json!(n));
        }
    }
    Ok(json!({
        "ok": true,
        "text": out,
        "orig_text": &src[whole.0..whole.1],
        "rewrites": Value::Object(counts),
        "n_loops": v.loop_ctr,
        "n_closures": v.closure_ctr,
    }))
}

// ------------------------------------------------------------------------------------------
// type definitions
// ------------------------------------------------------------------------------------------
fn render_typedef(src: &str, items: &[Item], req: &Value) -> std::result::Result<Value, String> {
    let name = req.get("locator").and_then(|l| l.get("name")).and_then(|v| v.as_str()).unwrap_or("");
    let cfg = cfg_from(req);
    fn find<'f>(items: &'f [Item], name: &str) -> Option<&'f Item> {
        for it in items {
            match it {
                Item::Struct(s) if s.ident == name => return Some(it),
                Item::Enum(e) if e.ident == name => return Some(it),
                Item::Type(t) if t.ident == name => return Some(it),
                Item::Mod(m) => {
                    if let Some((_, inner)) = &m.content {
                        if let Some(x) = find(inner, name) {
                            return Some(x);
                        }
                    }
                }
                _ => {}
            }
        }
        None
    }
    let it = find(items, name).ok_or(format!("lost anchor: type `{}` not found", name))?;
    let mut v = V { ed: Ed::new(src), cfg, loop_ctr: 0, closure_ctr: 0, loops: vec![], stmts: vec![], errors: vec![] };
    let (lo, hi) = rng(it);
    let (generics, attrs): (&Generics, &Vec<Attribute>) = match it {
        Item::Struct(s) => (&s.generics, &s.attrs),
        Item::Enum(e) => (&e.generics, &e.attrs),
        Item::Type(t) => (&t.generics, &t.attrs),
        _ => unreachable!(),
    };
    v.visit_item(it);
    let _ = attrs;
    // generics: drop the kind parameter
    if let (Some(lt), Some(gt)) = (&generics.lt_token, &generics.gt_token) {
        let mut gens: Vec<String> = vec![];
        for gp in generics.params.iter() {
            let id = match gp {
                GenericParam::Type(t) => t.ident.to_string(),
                GenericParam::Lifetime(l) => l.lifetime.to_string(),
                GenericParam::Const(c) => c.ident.to_string(),
            };
            if v.is_kind(&id) {
                continue;
            }
            // drop bounds mentioning the kind (e.g. F: Functor<K,..>) is not needed for the types we extract
            gens.push(v.ed.r(gp));
        }
        let s = if gens.is_empty() { String::new() } else { format!("<{}>", gens.join(", ")) };
        v.ed.replace(rng(lt).0, rng(gt).1, s, "T1");
    }
    // fields public
    let mut pubify = |fields: &Fields, v: &mut V| {
        for f in fields.iter() {
            if !matches!(f.vis, Visibility::Public(_)) {
                let at = match &f.ident {
                    Some(i) => rng(i).0,
                    None => rng(&f.ty).0,
                };
                v.ed.insert(at, "pub ".into(), "vis-pub");
            }
        }
    };
    match it {
        Item::Struct(s) => {
            pubify(&s.fields, &mut v);
            if !matches!(s.vis, Visibility::Public(_)) {
                v.ed.insert(rng(&s.struct_token).0, "pub ".into(), "vis-pub");
            }
        }
        Item::Enum(e) => {
            if !matches!(e.vis, Visibility::Public(_)) {
                v.ed.insert(rng(&e.enum_token).0, "pub ".into(), "vis-pub");
            }
        }
        _ => {}
    }
    let mut counts = Map::new();
    for (k, n) in v.ed.counts.iter() {
        if !k.is_empty() {
            counts.insert(k.clone(), json!(n));
        }
    }
    let mut text = v.ed.render(lo, hi);
    // collapse blank lines left by dropped attributes
    while text.contains("\n\n\n") {
        text = text.replace("\n\n\n", "\n\n");
    }
    Ok(json!({"ok": true, "text": text.trim_start().to_string() + "\n", "orig_text": &src[lo..hi], "rewrites": Value::Object(counts)}))
}

fn handle(repo: &str, req: &Value, cache: &mut BTreeMap<String, (String, std::result::Result<File, String>)>) -> Value {
    let id = req.get("id").cloned().unwrap_or(Value::Null);
    let file = req.get("file").and_then(|v| v.as_str()).unwrap_or("");
    let path = format!("{}/{}", repo, file);
    if !cache.contains_key(&path) {
        let src = match std::fs::read_to_string(&path) {
            Ok(s) => s,
            Err(e) => return json!({"id": id, "ok": false, "error": format!("lost anchor: cannot read {}: {}", path, e)}),
        };
        let parsed = syn::parse_file(&src).map_err(|e| format!("cannot parse {}: {}", path, e));
        cache.insert(path.clone(), (src, parsed));
    }
    let (src, parsed) = cache.get(&path).unwrap();
    let f = match parsed {
        Ok(f) => f,
        Err(e) => return json!({"id": id, "ok": false, "error": e}),
    };
    let kind = req.get("kind").and_then(|v| v.as_str()).unwrap_or("fn");
    let res = if kind == "type" {
        render_typedef(src, &f.items, req)
    } else {
        let loc = req.get("locator").cloned().unwrap_or(json!({}));
        match find_fn(&f.items, &loc) {
            Err(e) => Err(e),
            Ok(Found::ImplFn(m)) => render_fn(src, &m.sig, Some(&m.block), req, rng(m)),
            Ok(Found::FreeFn(m)) => render_fn(src, &m.sig, Some(&m.block), req, rng(m)),
            Ok(Found::TraitFn(m)) => render_fn(src, &m.sig, m.default.as_ref(), req, rng(m)),
        }
    };
    match res {
        Ok(mut v) => {
            v.as_object_mut().unwrap().insert("id".into(), id);
            v
        }
        Err(e) => json!({"id": id, "ok": false, "error": e}),
    }
}

fn main() {
    let mut inp = String::new();
    std::io::Read::read_to_string(&mut std::io::stdin(), &mut inp).expect("stdin");
    let v: Value = serde_json::from_str(&inp).expect("json");
    let repo = v.get("repo").and_then(|x| x.as_str()).unwrap_or("/repo").to_string();
    let mut cache = BTreeMap::new();
    let mut out = vec![];
    if let Some(reqs) = v.get("requests").and_then(|x| x.as_array()) {
        for r in reqs {
            out.push(handle(&repo, r, &mut cache));
        }
    }
    println!("{}", serde_json::to_string(&json!({"responses": out})).unwrap());
}
