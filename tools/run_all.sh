#!/bin/bash
# runs the quick check of every claimed property on the current tree; prints one line each
cd /verif
for p in $(python3 -c "import json; print(' '.join(c['property_id'] for c in json.load(open('MANIFEST.json'))['checks']))"); do
  t0=$(date +%s.%N); out=$(./check $p --tier ${1:-quick} 2>&1); rc=$?; t1=$(date +%s.%N)
  printf "%s rc=%d %.1fs | %s\n" $p $rc $(echo "$t1 - $t0" | bc) "$(echo "$out" | grep 'tier=' | cut -c1-170)"
  echo "$out" | grep -E '^(VIOLATION|KNOWN-FINDING)' | cut -c1-160
done
