#!/usr/bin/env python3
"""(re)generates section 8 of DESIGN.md from tools/design_section8.md and a seeded-results file"""
import sys, subprocess, re
res = sys.argv[1]
tab = subprocess.run(['python3', '/verif/tools/seeded_table.py', res] + sys.argv[2:3], capture_output=True, text=True).stdout
summary, _, table = tab.partition('\n\n')
sec = open('/verif/tools/design_section8.md').read()
sec = sec.replace('@SEEDED_SUMMARY@', summary.strip()).replace('@SEEDED_TABLE@', table.strip())
d = open('/verif/DESIGN.md').read()
i = d.find('## 8. As built')
j = d.find('## Appendix A')
if i < 0:
    i = j
d = d[:i] + sec.rstrip() + '\n\n---------------------------------------------------------------------------------\n\n' + d[j:]
open('/verif/DESIGN.md', 'w').write(d)
print(summary)
