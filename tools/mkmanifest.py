#!/usr/bin/env python3
"""writes MANIFEST.json from vlib/props.py + tools/manifest_texts.json (claimed properties only)"""
import json, os, sys
V = os.path.dirname(os.path.dirname(os.path.abspath(__file__)))
sys.path.insert(0, V)
from vlib import props as P
texts = json.load(open(os.path.join(V, 'tools', 'manifest_texts.json')))
claimed = texts['claimed']
ids = [json.loads(l)['id'] for l in open(os.path.join(V, 'properties.jsonl'))]
checks = []
for pid in ids:
    if pid not in claimed:
        continue
    t = claimed[pid]
    checks.append({
        'property_id': pid,
        'quick_cmd': './check %s --tier quick' % pid,
        'thorough_cmd': './check %s --tier thorough' % pid,
        'evidence_file': 'evidence/%s.json' % pid,
        'replay_cmd_template': './check replay {path}',
        'engine': t.get('engine', 'contracts'),
        'level_claimed': {'category': P.PROPS[pid]['level'], 'text': t['level_text'], 'design_ref': t.get('design_ref', 'DESIGN.md section 3')},
        'level_note': t['level_note'],
        'technique': t['technique'],
    })
m = {
    'version': 1,
    'setup_cmd': './check setup',
    'hooks': {'guard': 'cargo feature `verif-hooks` (default off)',
              'enable': 'bounded/Cargo.toml depends on /repo by path with features ["verif-hooks","serde"]; the Verus path reads source text and needs no hook',
              'baseline_off_cmd': 'cd /repo && cargo test --workspace --no-fail-fast --offline',
              'source_commits': ['f4c3029'], 'add_only': True},
    'engines': [
        {'name': 'contracts', 'path': 'check', 'serves_properties': sorted(claimed.keys()),
         'kind_free_text': 'contract-based deductive verification: tools/vx extracts the real functions of /repo on every run, contracts/*.py supply requires/ensures/invariants, Verus discharges them; Kani for loop-free full-domain harnesses; a bounded contract checker (bounded/) runs the real compiled code against executable oracles as the labelled stand-in and as the source of replayable failing inputs'},
    ],
    'checks': checks,
    'not_applicable': [{'property_id': pid, 'reason': texts['not_applicable'].get(pid, 'check not built yet (see DESIGN.md section 3)')} for pid in ids if pid not in claimed],
    'notes': texts.get('notes', ''),
}
json.dump(m, open(os.path.join(V, 'MANIFEST.json'), 'w'), indent=1)
print('claimed:', len(checks), 'not applicable:', len(m['not_applicable']))
