#!/bin/bash
# usage: tools/verify_mutants.sh <root> <letters> <ids...>
# Confirms sub-agent mutants before they are kept: for each <root>/out/<P>/<m>/ the demo passes on the clean
# worktree <root>/<P>, fails with the patch, and the whole unedited suite still passes with the patch.
ROOT=$1; LETTERS=$2; shift 2
OUT=${VERIFY_OUT:-$ROOT/verify_results.txt}; : > $OUT
for P in "$@"; do
 for m in $LETTERS; do
  d=$ROOT/out/$P/$m
  [ -f $d/patch.diff ] || { echo "$P$m | MISSING" >> $OUT; continue; }
  id=${P}${m}; wt=$ROOT/$P
  cd $wt; git checkout -q -- . ; git clean -fdq -e target -e Cargo.lock
  cp $d/demo.rs tests/demo_$id.rs
  clean_demo=$(cargo test --offline --test demo_$id 2>&1 | grep -E '^test result' | head -1)
  if git apply $d/patch.diff 2>/dev/null; then applied=yes; else applied=NO; fi
  mut_demo=$(cargo test --offline --test demo_$id 2>&1 | grep -E '^test result' | head -1)
  rm tests/demo_$id.rs
  suite=$(cargo test --workspace --no-fail-fast --offline 2>&1 | grep -E '^test result' | awk '{p+=$4; f+=$6} END {print "passed="p" failed="f}')
  git checkout -q -- . ; git clean -fdq -e target -e Cargo.lock
  echo "$id | applied=$applied | clean_demo: $clean_demo | mut_demo: $mut_demo | suite: $suite" >> $OUT
 done
done
echo DONE >> $OUT
