#!/usr/bin/env python3
# usage: tools/import_mutants.py <root> <round> <origin-text> -- copies every confirmed mutant listed in
# <root>/verify_results.txt (demo passes clean, fails with the patch, suite passes) to /verif/seeded/<id>/
import json, os, re, shutil, sys
root, rnd, origin = sys.argv[1], int(sys.argv[2]), sys.argv[3]
props = {json.loads(l)['id']: json.loads(l) for l in open('/verif/properties.jsonl')}
for line in open(os.path.join(root, 'verify_results.txt')):
    if '|' not in line: continue
    parts = [p.strip() for p in line.split('|')]
    mid = parts[0]
    if 'MISSING' in line: print(mid, 'missing'); continue
    P, m = mid[:3], mid[3:]
    ok = (parts[1] == 'applied=yes' and re.search(r'clean_demo: test result: ok', line) and re.search(r'mut_demo: test result: FAILED', line)
          and re.search(r'failed=0\b', parts[4]))
    if not ok: print(mid, 'NOT CONFIRMED:', line.strip()); continue
    src = os.path.join(root, 'out', P, m); dst = os.path.join('/verif/seeded', mid)
    os.makedirs(dst, exist_ok=True)
    for f in ('patch.diff', 'demo.rs', 'NOTES.md'): shutil.copy(os.path.join(src, f), os.path.join(dst, f))
    meta = {'id': mid, 'breaks_property': P, 'property_title': props[P]['title'], 'round': rnd, 'origin': origin,
            'needs_to_manifest': open(os.path.join(src, 'NOTES.md')).read().splitlines(),
            'what_i_ran': ['git apply patch.diff in the scratch worktree', 'cargo test --workspace --no-fail-fast --offline (whole suite, unedited)',
                           'cargo test --offline --test demo_%s with and without the patch' % mid],
            'result': parts[1:]}
    json.dump(meta, open(os.path.join(dst, 'meta.json'), 'w'), indent=1)
    print(mid, 'imported')
