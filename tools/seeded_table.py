#!/usr/bin/env python3
"""markdown table of the seeded changes and what caught them, from a tools/run_seeded.sh results file"""
import sys, re, json, os
res = {}
for l in open(sys.argv[1]):
    m = re.match(r'(C\d+[a-z]): rc=(\d) violations=(\d+) proof-lost=(\d+) \|\s*(.*)', l)
    if m:
        res[m.group(1)] = m.groups()[1:]
detail = {}
dp = sys.argv[2] if len(sys.argv) > 2 else None
if dp and os.path.exists(dp):
    for l in open(dp):
        m = re.match(r'(C\d+[a-z]): VERUS\[(.*?)\] BOUNDED\[(.*)\]', l)
        if m:
            detail[m.group(1)] = (m.group(2).split(), m.group(3))
rows = []
caught = 0
for d in sorted(os.listdir('/verif/seeded')):
    p = '/verif/seeded/' + d
    if not os.path.isdir(p) or d not in res:
        continue
    rc, nv, lost, first = res[d]
    notes = open(p + '/NOTES.md').read()
    files = sorted(set(re.findall(r'[ab]/(src/[\w/\.]+)', open(p + '/patch.diff').read())))
    how = first.strip()
    if how.startswith('obligation'):
        m = re.match(r'obligation (\S+) clause (\S+)', how)
        by = 'Verus obligation `%s` (%s)' % (m.group(2), m.group(1).split('::')[-1]) if m else 'Verus obligation'
    elif how:
        m = re.match(r'(\S+) (\S+) input=', how)
        by = 'bounded `%s`' % m.group(2) if m else 'bounded'
    else:
        by = '**missed**'
    if d in detail:
        obls, bnd = detail[d]
        parts = []
        if obls:
            parts.append('Verus: ' + ', '.join('`%s` (%s)' % (o.split('@')[0], o.split('@')[1].split('::')[-1]) for o in obls[:3]))
        mb = re.match(r'\s*(\S+) (\S+) input=', bnd)
        if mb:
            parts.append('bounded: `%s`' % mb.group(2))
        if parts:
            by = '; '.join(parts)
    if lost != '0':
        by += ' (proof lost for the changed function)'
    if rc == '1':
        caught += 1
    rows.append('| %s | %s | %s | %s |' % (d, ', '.join(f.replace('src/', '') for f in files), 'yes' if rc == '1' else 'NO', by))
print('caught %d of %d' % (caught, len(rows)))
print()
print('| id | file(s) changed | caught by its property\'s quick check | failed obligations / clauses |')
print('|---|---|---|---|')
print('\n'.join(rows))
