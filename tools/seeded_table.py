#!/usr/bin/env python3
"""markdown table of the seeded changes and what caught them, from a tools/run_seeded.sh results file"""
import sys, re, json, os
res = {}
for l in open(sys.argv[1]):
    m = re.match(r'(C\d+[a-z]): rc=(\d) violations=(\d+) proof-lost=(\d+) \|\s*(.*)', l)
    if m:
        res[m.group(1)] = m.groups()[1:]
rows = []
caught = 0
for d in sorted(os.listdir('/verif/seeded')):
    p = '/verif/seeded/' + d
    if not os.path.isdir(p) or d not in res:
        continue
    rc, nv, lost, first = res[d]
    notes = open(p + '/NOTES.md').read()
    files = sorted(set(re.findall(r'[ab]/(src/[\w/\.]+)', open(p + '/patch.diff').read())))
    how = first.strip()
    if how.startswith('obligation'):
        m = re.match(r'obligation (\S+) clause (\S+)', how)
        by = 'Verus obligation `%s` (%s)' % (m.group(2), m.group(1).split('::')[-1]) if m else 'Verus obligation'
    elif how:
        m = re.match(r'(\S+) (\S+) input=', how)
        by = 'bounded `%s`' % m.group(2) if m else 'bounded'
    else:
        by = '**missed**'
    if lost != '0':
        by += ' (proof lost for the changed function)'
    if rc == '1':
        caught += 1
    rows.append('| %s | %s | %s | %s |' % (d, ', '.join(f.replace('src/', '') for f in files), 'yes' if rc == '1' else 'NO', by))
print('caught %d of %d' % (caught, len(rows)))
print()
print('| id | file(s) changed | caught by its property\'s quick check | first reported clause |')
print('|---|---|---|---|')
print('\n'.join(rows))
