"""Run Verus on the generated file and interpret its output."""
import json, os, subprocess, time, re
from . import gen as G

def run_verus(path, extra=None, rlimit=60, threads=16, timeout=1500):
    cmd = ['verus', path, '--output-json', '--time', '--error-format=json', '--triggers-mode', 'silent',
           '--multiple-errors', '30', '--num-threads', str(threads), '--rlimit', str(rlimit)] + (extra or [])
    t0 = time.time()
    try:
        p = subprocess.run(cmd, capture_output=True, text=True, timeout=timeout, cwd=os.path.dirname(path))
    except subprocess.TimeoutExpired:
        return {'cmd': ' '.join(cmd), 'timeout': True, 'wall_s': time.time() - t0, 'diags': [], 'json': None, 'rc': None}
    wall = time.time() - t0
    out = None
    try:
        out = json.loads(p.stdout)
    except Exception:
        pass
    diags = []
    for line in p.stderr.splitlines():
        line = line.strip()
        if line.startswith('{'):
            try:
                d = json.loads(line)
                if d.get('$message_type') == 'diagnostic':
                    diags.append(d)
            except Exception:
                pass
    return {'cmd': ' '.join(cmd), 'timeout': False, 'wall_s': wall, 'diags': diags, 'json': out, 'rc': p.returncode,
            'stderr_tail': p.stderr[-3000:] if out is None else ''}

VERIFICATION_ERRORS = ('postcondition not satisfied', 'precondition not satisfied', 'assertion failed',
                       'invariant not satisfied', 'possible arithmetic underflow/overflow', 'possible division by zero',
                       'decreases not satisfied', 'failed this postcondition', 'index out of bounds', 'cannot show',
                       'recommendation not met', 'unreachable', 'loop invariant', 'bit shift', 'termination', 'unable to prove')

def classify(res, linemap):
    """-> dict(compile_errors=[...], failures=[{fid, kind, clause, line, msg, rendered}], resource=[fid...])"""
    compile_errors, failures, resource = [], [], []
    for d in res['diags']:
        if d.get('level') != 'error':
            continue
        msg = d.get('message', '')
        if msg.startswith('aborting due to'):
            continue
        spans = d.get('spans', [])
        prim = [s for s in spans if s.get('is_primary')] or spans
        line = prim[0]['line_start'] if prim else None
        fid = None
        clause = None
        def _clause_of(sp):
            # a clause marker sits on the last line of its (possibly multi-line) ensures expression
            for n in range(sp['line_start'], sp.get('line_end', sp['line_start']) + 1):
                c = linemap['clauses'].get(n)
                if c:
                    return c
            return None
        for s in spans:
            f = G.fn_at_line(linemap, s['line_start'])
            c = _clause_of(s)
            if c and not s.get('is_primary'):
                clause = c[0]
            if f and s.get('is_primary'):
                fid = f
        if fid is None:
            for s in spans:
                f = G.fn_at_line(linemap, s['line_start'])
                if f:
                    fid = f
        for s in spans:
            c = _clause_of(s)
            if c and clause is None:
                clause = c[0]
        low = msg.lower()
        if 'resource limit' in low or 'rlimit' in low or 'timed out' in low or 'timeout' in low:
            resource.append({'fid': fid, 'msg': msg, 'line': line})
        elif any(k in low for k in VERIFICATION_ERRORS):
            failures.append({'fid': fid, 'kind': msg, 'clause': clause, 'line': line, 'rendered': d.get('rendered', '')})
        else:
            compile_errors.append({'fid': fid, 'msg': msg, 'line': line, 'rendered': d.get('rendered', '')})
    return {'compile_errors': compile_errors, 'failures': failures, 'resource': resource}

def breakdown(res):
    """per-function verus results: list of dict(function, success, time_us, rlimit)"""
    out = []
    j = res.get('json') or {}
    smt = (j.get('times-ms') or {}).get('smt') or {}
    for m in smt.get('smt-run-module-times', []):
        for f in m.get('function-breakdown', []):
            out.append({'function': f.get('function'), 'success': f.get('success'), 'time_us': f.get('time-micros'),
                        'rlimit': f.get('rlimit'), 'mode': f.get('mode:')})
    return out
