"""Per-property configuration of ./check (levels must match MANIFEST.json)."""

TRUSTED_COMMON = [
    'Verus 0.2026.09.13 with its bundled Z3 4.16.0 and vstd (specifications of Vec, slices, iterators, HashMap, Option)',
    'tools/vx extraction: the rewrite rules T1..T20 of DESIGN.md section 2.2 / 8.2 are meaning-preserving (monomorphization at VecKind as rustc does it; trait impls as inherent impls; operator sugar through dispatch traits; panics as obligations)',
    'std semantics assumed by rewrites: enumerate() counts from 0 (T8); map().collect() visits elements once in order (T9); into_iter().collect() likewise (T13); calling a boxed closure held in a struct field is a call of the opaque stand-in declared for that field, about which nothing is assumed beyond an uninterpreted postcondition (T14); `for x in &mut v` and `v.iter_mut().for_each(|x| ..)` visit every position once, in order, through `&mut v[i]` (T15); zip of two into_iter()s calls next() on the first then the second and stops at the first None (T17); a full-range drain(..) yields every element and leaves the vector empty (T18); filter_map().collect() pushes the Some results in order, Option::map(F) applies F under Some (T19); Vec::extend(iter.map(f)) pushes in order (T9); a.chain(b).collect() is all of a then all of b, v[k..].to_vec() clones the tail in order (T20); std::mem::take returns the old value (assume_specification, nothing assumed about the value left behind); `a += &x` is `a += x` (T12); #[derive(Clone)] clones field-wise',
    'machine arithmetic: sizes and sums fit usize where a contract says so (explicit preconditions); allocation failure is out of scope',
]

ASSUMPTIONS_COMMON = [
    'label types have lawful Clone and PartialEq (clone returns an equal value; == is structural equality)',
    'the bounded checker samples inputs; it is a stand-in, never counted as proof',
]

KANI = {
    'C07': ['to_range_all_forms'],
}

def _p(level, explanation='', assumptions=None, rule='', dev_profile=False, kani_quick=False, extra_modules=None):
    return {'level': level, 'explanation': explanation, 'assumptions': assumptions or [], 'rule': rule,
            'dev_profile': dev_profile, 'kani_quick': kani_quick, 'extra_modules': extra_modules or []}

PROPS = {
    'C01': _p('proof', explanation='compose proved to be the pushout (universal property)'),
    'C02': _p('proof', explanation='strict tensor proved to be juxtaposition; associativity and unit on the nose as lemmas over that contract; lax coproduct / tensor proved to be juxtaposition with the second operand shifted (is_lax_tensor)'),
    'C03': _p('proof', explanation='every law (associativity, units, interchange, naturality / self-inverse / hexagons of the symmetry) proved up to an exhibited isomorphism as a lemma over the contracts of compose, tensor, identity, twist (modules laws, laws2)', extra_modules=['laws', 'laws2']),
    'C04': _p('proof', explanation='dagger/spider definitions proved; dagger involutive and distributing over tensor on the nose as lemmas over the contracts'),
    'C05': _p('proof', explanation='wf + type postconditions of the strict cone'),
    'C06': _p('proof', explanation='every finite-function / semifinite-function operation under a Verus contract stating its set-theoretic table; coequalizer against the universal property (is_coeq); coequalizer_universal iff constant on fibres'),
    'C07': _p('proof', explanation='every array primitive of the Vec backend under a Verus contract stating its scalar definition; bodies extracted from /repo each run', kani_quick=True),
    'C08': _p('proof', explanation='every segmented-array operation under a Verus contract in list-of-lists (segment/offset) form plus the size invariant; iterator next/len/size_hint; checked constructors accept iff'),
    'C09': _p('proof', explanation='lax Hypergraph::quotient, OpenHypergraph::quotient and coequalizer extracted (rules T9, T15) and proved: the returned map is a coequalizer of the recorded unification pairs, every node reference is replaced by its image, hyperedges / labels / order untouched, labels per fibre, pending unifications cleared, a second quotient only renumbers; Err iff a fibre carries two labels, and then the diagram is unchanged'),
    'C10': _p('proof', explanation='from_strict / to_strict proved to yield exactly the other representation (to_strict = quotient in the sense of C09, then the same data); both round trips return the diagram renumbered by a node bijection with hyperedges in place; lax coproduct, tensor, lax_compose (defined iff arities match), checked compose (defined iff types match), identity, spider, dagger, source, target proved against their definitions; strictification commutes, up to a node bijection, with composition and tensor for ALL lax operands and with identity / spiders / symmetry / dagger / singleton (lemmas: sum and pasting of coequalizers; for quotient-free operands the strictified composite is a pushout on the nose). Bounded: the in-place tensor_assign / append / coproduct_assign against the pure ones, and that the renumbering is the identity on the Vec backend'),
    'C11': _p('proof', explanation='every builder call of lax::Hypergraph / OpenHypergraph (new_node, new_edge, new_operation, unify, add_edge_source / target, delete_edges, delete_nodes(_witness), with_nodes / with_edges, map_nodes / map_edges, empty, discrete, singleton) extracted and proved against the list model -- the struct is the list model, each contract states the new lists exactly and frames the rest; deletion: exactly the named items, survivors in order, references dropped / renumbered, pending pairs kept iff both ends survive, renumbering reported; out-of-range rejection (panic) and serde bounded'),
    'C12': _p('proof', explanation='define_map_arrow / spider_map_arrow proved, for every functor meeting the trait contract, to return the substitution instance (nodes replaced by their blocks, hyperedges by the image of the operations, glued along the expanded source and target lists by a coequalizer, interfaces expanded), well-formed and of type F(A) -> F(B); the instance is unique up to isomorphism; the Identity functor is proved to meet the contract and its image to be isomorphic to the argument; functoriality clauses and the lax DynFunctor wrapper are bounded', extra_modules=['subst', 'laws', 'laws2']),
    'C13': _p('exploration', explanation='proved on the real code: try_define_map_arrow and map_arrow_witness refuse (None) whenever pending unifications remain; the witness is the segmented array with segment sizes |F(label i)| and values n, n+1, .. (n = total size), well-formed, over the node set of the result; the lax map_half_spider is the block-wise injection (defined iff the ids are in range). The image itself (map_operations / map_objects / lax spider_map_arrow: impl-Trait returns, flat_map) carries no assumed contract and is compared with the strict path by the bounded module'),
    'C14': _p('exploration', explanation='typing clauses proved (Optic::map_object, map_operations, map_arrow, adapt: well-formed, panic-free, of the stated types for every lens-typed forward/reverse functor and residual); functoriality, monogamy and the derivative clause bounded'),
    'C15': _p('proof', explanation='kahn proved against its layering contract (loop invariant over a counting model); converse / flatmap / operation_adjacency proved to compute the dependency relation; layer() proved to satisfy the local form of the property, from which the path form follows by verified lemmas; grouping (layered_operations) bounded'),
    'C16': _p('proof', explanation='eval, eval_order and layer_function_to_layers proved: None iff a dependency cycle exists; otherwise the memory solves the circuit equations (inputs stored, every hyperedge interpreted once on its source values) for every interpretation the user closure computes; the solution is unique (lemma_solution_unique)'),
    'C17': _p('proof', explanation='is_monogamous and degrees proved; is_acyclic proved: true iff no node reaches itself (kahn + node adjacency under contract, cycle lemmas)', dev_profile=True),
    'C18': _p('proof', explanation='validate iff + error variants, is_monomorphism and is_convex_subgraph (two-layer search: loop invariant, soundness and completeness against step-indexed reachability, termination) proved'),
    'C19': _p('exploration', explanation='proved on the real code: Forget::map_operation and ForgetMonogamous::map_operation (what forgetting does to one operation: one merged node / nothing / the operation itself on fresh nodes), with all_elements_equal assumed against its definition (bounded-checked through the hook); the Var builder (Rc<RefCell>, operator overloading) and the whole-term clauses are bounded'),
    'C20': _p('proof', explanation='every strict algorithm of the property is verified against the documented, deliberately loose array contracts (./check C20 strips every Vec-specific clause first), and its contract determines the result: predicates and evaluation refusal are iff-specified, layering and the evaluation solution are unique, composites / functor images / optic images are unique up to isomorphism (uniqueness and congruence lemmas); layered_operations grouping and everything in lax/ compared on an adversarial second backend (bounded)', extra_modules=['laws', 'laws2', 'subst']),
}


# Additional property tags per function (applied when the overlay is loaded): a function belongs to the cone of
# every property whose statement quantifies over it.  Kept here, precise per function, so that a failed obligation
# is reported for exactly the properties it breaks.
_OH = 'open_hypergraph::OpenHypergraph::'
EXTRA_PROPS = {
    _OH + 'compose': ['C03', 'C04', 'C10', 'C12', 'C14'],
    _OH + 'arrow_compose': ['C03', 'C04', 'C10', 'C12', 'C20'],
    'open_hypergraph::OpenHypergraph::oh_shr': ['C03', 'C04', 'C05', 'C20'],
    _OH + 'tensor': ['C03', 'C04', 'C10', 'C12', 'C14', 'C20'],
    'open_hypergraph::OpenHypergraph::oh_bitor': ['C03', 'C05', 'C20'],
    _OH + 'identity': ['C03', 'C10', 'C12'],
    _OH + 'arrow_identity': ['C03', 'C04', 'C10'],
    _OH + 'twist': ['C10', 'C20'],
    _OH + 'dagger': ['C10', 'C14'],
    _OH + 'spider': ['C10', 'C12'],
    _OH + 'spider_trait': ['C10'],
    'open_hypergraph::half_spider': ['C10'],
    _OH + 'source': ['C03'],
    _OH + 'target': ['C03'],
    _OH + 'arrow_source': ['C01', 'C03'],
    _OH + 'arrow_target': ['C01', 'C03'],
    _OH + 'singleton': ['C10', 'C12'],
    _OH + 'tensor_operations': ['C12'],
    'hypergraph::Hypergraph::coproduct': ['C03', 'C20'],
    'hypergraph::Hypergraph::coequalize_vertices': ['C03', 'C20'],
    'functor::define_map_arrow': ['C20'],
    'functor::spider_map_arrow': ['C20'],
    'graph::converse': ['C20'],
    'graph::kahn': ['C20'],
    'graph::filter': ['C16', 'C17', 'C20'],
    'graph::zero': ['C16', 'C17', 'C20'],
    'graph::indegree': ['C16', 'C20'],
    'graph::dense_relative_indegree': ['C16', 'C20'],
    'graph::sparse_relative_indegree': ['C16'],
    'graph::node_adjacency': ['C20'],
    'graph::node_adjacency_from_incidence': ['C20'],
    'indexed_coproduct::IndexedCoproduct::flatmap': ['C16', 'C17', 'C18', 'C20'],
    'hypergraph_arrow::HypergraphArrow::is_convex_subgraph': ['C20'],
    'hypergraph_arrow::HypergraphArrow::is_monomorphism': ['C20'],
    'hypergraph_arrow::successors': ['C20'],
    'hypergraph_arrow::filter_unvisited': ['C20'],
    'open_hypergraph::OpenHypergraph::is_monogamous': ['C20'],
    'eval::eval': ['C20'],
    'eval::eval_order': ['C20'],
    'eval::layer_function_to_layers': ['C20'],
    'layer::Hypergraph::is_acyclic': ['C20'],
    'layer::OpenHypergraph::is_acyclic': ['C20'],
    'graph::operation_adjacency': ['C20'],
    'layer::layer': ['C20'],
    'hypergraph_arrow::HypergraphArrow::validate': ['C20'],
    'optic::interleave_blocks': ['C20'],
    'optic::partial_dagger': ['C20'],
    'optic::Optic::optic_map_operations': ['C20'],
    'optic::Optic::optic_map_arrow': ['C20'],
}
