"""Assemble gen/ohg_verus.rs from the overlay plan and the current /repo sources (via tools/vx)."""
import json, os, subprocess, hashlib, re

VERIF = os.path.dirname(os.path.dirname(os.path.abspath(__file__)))
VX = os.environ.get('VERIF_VX') or os.path.join(VERIF, 'tools', 'vx', 'target', 'release', 'vx')

HEADER = """// GENERATED on every run by /verif/check from /repo's current sources -- do not edit.
// Function bodies are copied verbatim by byte span from /repo (tools/vx) with the rewrite
// rules T1..T9 of DESIGN.md; contracts come from /verif/contracts.
#![allow(unused_imports, unused_variables, dead_code, unused_mut, unused_parens, non_snake_case, unused_braces, unreachable_code, unused_assignments)]
use vstd::prelude::*;
verus! {
"""

class GenError(Exception):
    pass

def build_requests(plan, abstract_backend=False, force_external=None, vacuity=False):
    reqs = []
    for i, it in enumerate(plan.items):
        if it.kind == 'fn':
            ens = []
            for e in it.ensures:
                if isinstance(e, list):
                    lab, txt = e
                    if abstract_backend and lab.endswith('!vec'):
                        continue
                    ens.append([lab, txt])
                else:
                    ens.append(e)
            body = 'keep' if it.status == 'P' else 'external'
            if force_external and it.fid in force_external:
                body = 'external'
            ann = {'requires': it.requires, 'ensures': ens, 'ret': it.ret, 'body': body,
                   'loops': {str(k): v for k, v in it.loops.items()},
                   'closures': {str(k): v for k, v in it.closures.items()},
                   'proofs': [p if isinstance(p, dict) else {'at': p[0], 'text': p[1]} for p in it.proofs],
                   'attrs': it.attrs, 'generics_add': it.generics_add, 'where_add': it.where_add, 'sig_pat': it.sig_pat}
            if it.decreases:
                ann['decreases'] = it.decreases
            r = {'id': i, 'kind': 'fn', 'file': it.file, 'locator': it.locator, 'rules': it.rules,
                 'annotations': ann, 'no_pub': it.no_pub}
            if it.rename:
                r['rename'] = it.rename
            reqs.append(r)
            if vacuity and body == 'keep' and not it.no_pub:
                # vacuity guard: an uncalled twin of the function with an added `ensures false` must be REJECTED
                # (callees keep their normal contracts, so a pass would mean a contradictory precondition or
                # an inconsistent callee contract)
                import copy
                r2 = copy.deepcopy(r)
                r2['id'] = 'vac:%d' % i
                r2['rename'] = (it.rename or it.locator['name']) + '__vac'
                r2['annotations']['ensures'] = ens + [['VACUITY', 'false']]
                reqs.append(r2)
        elif it.kind == 'type':
            reqs.append({'id': i, 'kind': 'type', 'file': it.file, 'locator': {'name': it.name}, 'rules': it.rules})
    return reqs

def run_vx(repo, reqs):
    if not os.path.exists(VX):
        raise GenError('vx not built (run setup)')
    p = subprocess.run([VX], input=json.dumps({'repo': repo, 'requests': reqs}), capture_output=True, text=True)
    if p.returncode != 0:
        raise GenError('vx failed: ' + p.stderr[-2000:])
    return {r['id']: r for r in json.loads(p.stdout)['responses']}

def indent(text, n):
    pad = ' ' * n
    return ''.join((pad + l if l.strip() else l) for l in text.splitlines(True))

def assemble(plan, repo='/repo', abstract_backend=False, force_external=None, out_path=None, vacuity=False):
    """returns dict(text, linemap, report, lost) ; lost = list of (fid, error) for lost anchors"""
    reqs = build_requests(plan, abstract_backend, force_external, vacuity)
    resp = run_vx(repo, reqs)
    out = [HEADER]
    lost = []
    report = {}
    cur_mod = None
    mods = []
    for i, it in enumerate(plan.items):
        if it.kind == 'module':
            if cur_mod is not None:
                out.append('} // mod %s\n' % cur_mod)
            cur_mod = it.name
            if getattr(it, 'export', True):
                mods.append(it.name)
            out.append('\npub mod %s {\nuse super::*;\n%s' % (it.name, ''.join('use %s;\n' % u for u in it.uses)))
        elif it.kind == 'raw':
            out.append(it.text.rstrip('\n') + '\n')
        elif it.kind == 'group_open':
            out.append('\n%s {\n%s' % (it.header, it.preamble))
        elif it.kind == 'group_close':
            out.append('}\n')
        elif it.kind == 'type':
            r = resp[i]
            if not r.get('ok'):
                lost.append(('type ' + it.name, r.get('error')))
                continue
            for a in it.extra_attrs:
                out.append(a + '\n')
            out.append(r['text'])
            report['type:' + it.name] = {'file': it.file, 'sha256': hashlib.sha256(r['orig_text'].encode()).hexdigest(),
                                         'rewrites': r.get('rewrites', {})}
        elif it.kind == 'fn':
            r = resp[i]
            if not r.get('ok'):
                lost.append((it.fid, r.get('error')))
                continue
            body_kept = not (it.status != 'P' or (force_external and it.fid in force_external))
            out.append('/*@F:%s@*/\n' % it.fid)
            out.append(indent(r['text'], 4 if it.group else 0))
            out.append('/*@E@*/\n')
            r2 = resp.get('vac:%d' % i)
            if r2 is not None and r2.get('ok'):
                out.append('/*@F:%s__vac@*/\n' % it.fid)
                out.append(indent(r2['text'], 4 if it.group else 0))
                out.append('/*@E@*/\n')
            report[it.fid] = {'file': it.file, 'status': it.status, 'body_verified_text': body_kept,
                              'sha256': hashlib.sha256(r['orig_text'].encode()).hexdigest(),
                              'rewrites': r.get('rewrites', {}), 'props': it.props}
    if cur_mod is not None:
        out.append('} // mod %s\n' % cur_mod)
    for m in mods:
        out.append('pub use %s::*;\n' % m)
    out.append('\n} // verus!\nfn main() {}\n')
    text = ''.join(out)
    # line map
    linemap = {'fn_ranges': [], 'clauses': {}}
    cur = None
    start = 0
    for n, line in enumerate(text.split('\n'), 1):
        m = re.search(r'/\*@F:(.*?)@\*/', line)
        if m:
            cur = m.group(1); start = n
        if '/*@E@*/' in line and cur:
            linemap['fn_ranges'].append((start, n, cur)); cur = None
        m = re.search(r'/\*@C:(.*?)@\*/', line)
        if m:
            linemap['clauses'][n] = (m.group(1), cur)
    if out_path:
        os.makedirs(os.path.dirname(out_path), exist_ok=True)
        with open(out_path, 'w') as f:
            f.write(text)
    return {'text': text, 'linemap': linemap, 'report': report, 'lost': lost}

def fn_at_line(linemap, n):
    for a, b, fid in linemap['fn_ranges']:
        if a <= n <= b:
            return fid
    return None
