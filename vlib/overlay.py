"""Contract overlay API.

Overlay files (contracts/*.py) are executed with the functions below in scope.  They describe,
for every function of /repo under contract: where it lives (file + impl + name), the contract
(requires / ensures with clause labels), loop invariants, closure specs and proof hints, the
status (P = body verified by Verus, B = contract assumed in Verus and checked by the bounded
checker, T = trusted), and the properties it belongs to.  The executable tokens always come
from /repo (tools/vx); nothing here can add or change executable code except through the closed
rewrite list of DESIGN.md section 2.2.
"""
import os, glob

class Item:  # one entry of the generated file, in order
    def __init__(self, kind, **kw):
        self.kind = kind
        self.__dict__.update(kw)

class Plan:
    def __init__(self):
        self.items = []       # ordered
        self.module = None
        self.group = None
        self.fns = {}         # id -> Item
        self.lemmas = []      # names of proof fns in raw blocks (counted as L)

PLAN = None

def module(name, uses=None, export=True):
    """start a module of the generated file (export=False: not glob re-exported at the top level)"""
    PLAN.module = name
    PLAN.items.append(Item('module', name=name, uses=uses or [], export=export))

def raw(text, tag=None, props=None):
    """verbatim Verus text: spec functions, lemmas, trusted std specs, witnesses"""
    PLAN.items.append(Item('raw', text=text, module=PLAN.module, tag=tag, props=props or []))

def typedef(file, name, extra_attrs=None, rules=None):
    PLAN.items.append(Item('type', file=file, name=name, module=PLAN.module,
                           extra_attrs=extra_attrs or [], rules=rules or {}))

def group(header, preamble=''):
    """open an impl block; subsequent fn(...) items are placed in it"""
    PLAN.group = header
    PLAN.items.append(Item('group_open', header=header, preamble=preamble, module=PLAN.module))

def endgroup():
    PLAN.items.append(Item('group_close', module=PLAN.module))
    PLAN.group = None

def fn(file, name, kind='impl', trait=None, self_ty=None, self_args=None, nth=None, module_=None,
       status='P', props=(), requires=(), ensures=(), decreases=None, loops=None, closures=None,
       proofs=(), rules=None, rename=None, no_pub=False, ret='r', attrs=(), generics_add=(),
       where_add='', fid=None, mirror=None, note=None, sig_pat=None):
    loc = {'kind': kind, 'name': name}
    if kind == 'impl':
        loc['trait'] = trait
        if self_ty: loc['self_ty'] = self_ty
        if self_args: loc['self_args'] = self_args
    elif kind == 'trait':
        loc['trait'] = trait
    if nth is not None: loc['nth'] = nth
    if module_: loc['module'] = module_
    if fid is None:
        base = (self_ty + '::' if self_ty and kind != 'free' else '') + (rename or name)
        fid = PLAN.module + '::' + base
        k = 2
        while fid in PLAN.fns:
            fid = PLAN.module + '::' + base + '#%d' % k
            k += 1
    ens = [list(e) if isinstance(e, (tuple, list)) else e for e in ensures]
    it = Item('fn', file=file, locator=loc, status=status, props=list(props), requires=list(requires),
              ensures=ens, decreases=decreases, loops=loops or {}, closures=closures or {},
              proofs=list(proofs), rules=rules or {}, rename=rename, no_pub=no_pub or (PLAN.group is not None and (' for ' in PLAN.group or PLAN.group.startswith('pub trait'))),
              ret=ret, attrs=list(attrs), generics_add=list(generics_add), where_add=where_add,
              fid=fid, module=PLAN.module, group=PLAN.group, mirror=mirror, note=note, name=rename or name, sig_pat=sig_pat or {})
    PLAN.items.append(it)
    PLAN.fns[fid] = it
    return it

OPNAMES = {'Shr': ('OpShr', 'shr'), 'Add': ('OpAdd', 'add'), 'Sub': ('OpSub', 'sub'), 'BitOr': ('OpBitOr', 'bitor')}

def opimpl(file, trait, self_ty, fname, self_name, self_type, rhs_type, out_type, req, ens, labels=None,
           impl_generics='', fn_generics='', self_args=None, nth=None, props=(), rules=None, closures=None, loops=None,
           proofs=(), status='P', where_add='', mirror=None, rhs_name='rhs'):
    """An operator impl of /repo (`impl <trait><Rhs> for <Self> { fn <method>(self, rhs) {..} }`).
    Its body is extracted as the free function `fname` (receiver renamed: rule T11) and verified
    against (req => ens).  The dispatch-trait impl used by rewritten operator sites (T3) is a one-line
    external_body wrapper around `fname` -- trusted glue, because Verus drops vstd's iterator specs in
    any function reachable from a trait impl method."""
    optrait, m = OPNAMES[trait]
    r = dict(rules or {})
    import re as _re
    r['self_rename'] = [self_name, _re.sub(r"'\w+\s+", '', self_type)]
    sub = dict(r.get('subst', {})); sub['Self::Output'] = out_type; r['subst'] = sub
    reqs = [req] if isinstance(req, str) else list(req)
    enss = [ens] if isinstance(ens, str) else list(ens)
    labels = labels or [None] * len(enss)
    fn(file, m, trait=trait, self_ty=self_ty, self_args=self_args, nth=nth, status=status, props=props, rename=fname,
       rules=r, requires=reqs, ensures=[(l, e) if l else e for l, e in zip(labels, enss)],
       closures=closures, loops=loops, proofs=proofs, where_add=where_add, mirror=mirror,
       generics_add=[g for g in [fn_generics] if g])
    conj = lambda xs: ' && '.join('(%s)' % x for x in xs) if xs else 'true'
    raw("""
impl%s %s<%s> for %s {
    type Output = %s;
    open spec fn %s_req(self, rhs: %s) -> bool { let %s = self; let %s = rhs; %s }
    open spec fn %s_ens(self, rhs: %s, r: %s) -> bool { let %s = self; let %s = rhs; %s }
    #[verifier::external_body]
    fn op_%s(self, rhs: %s) -> (r: %s) { %s(self, rhs) }
}
""" % (impl_generics, optrait, rhs_type, self_type, out_type, m, rhs_type, self_name, rhs_name if rhs_name != 'rhs' else '_rhs_same', conj(reqs),
       m, rhs_type, out_type, self_name, rhs_name if rhs_name != 'rhs' else '_rhs_same', conj(enss), m, rhs_type, out_type, fname), tag='T3-glue:' + fname)

def G(at, text):
    """ghost statements placed verbatim (not wrapped in a proof block), e.g. `let ghost x = ..;`"""
    return {'at': at, 'text': text, 'raw': True}

def load(contract_dir, only=None):
    """execute overlay files in lexical order and return the plan"""
    global PLAN
    PLAN = Plan()
    ns = {k: v for k, v in globals().items() if k in
          ('module', 'raw', 'typedef', 'group', 'endgroup', 'fn', 'opimpl', 'G')}
    for p in sorted(glob.glob(os.path.join(contract_dir, '*.py'))):
        base = os.path.basename(p)
        if only and base not in only:
            continue
        ns['__file__'] = p
        with open(p) as f:
            code = compile(f.read(), p, 'exec')
        exec(code, dict(ns))
    try:
        from . import props as _P
        for fid, extra in getattr(_P, 'EXTRA_PROPS', {}).items():
            it = PLAN.fns.get(fid)
            if it is not None:
                for e in extra:
                    if e not in it.props:
                        it.props.append(e)
    except Exception:
        pass
    return PLAN
